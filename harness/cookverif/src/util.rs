use serde_json::Value;
use std::io::{BufRead, BufWriter, Write};
use std::panic::{catch_unwind, AssertUnwindSafe};

pub fn read_ndjson(path: &str) -> Vec<Value> {
    let f = std::fs::File::open(path).unwrap_or_else(|e| panic!("open {path}: {e}"));
    let r = std::io::BufReader::new(f);
    let mut v = Vec::new();
    for (n, line) in r.lines().enumerate() {
        let line = line.unwrap();
        if line.trim().is_empty() {
            continue;
        }
        v.push(serde_json::from_str(&line).unwrap_or_else(|e| panic!("{path}:{}: {e}", n + 1)));
    }
    v
}

pub fn write_ndjson(path: &str, recs: &[Value]) {
    let f = std::fs::File::create(path).unwrap_or_else(|e| panic!("create {path}: {e}"));
    let mut w = BufWriter::new(f);
    for r in recs {
        serde_json::to_writer(&mut w, r).unwrap();
        w.write_all(b"\n").unwrap();
    }
    w.flush().unwrap();
}

thread_local! {
    static LAST_PANIC: std::cell::RefCell<Option<String>> = const { std::cell::RefCell::new(None) };
    static GUARD_DEPTH: std::cell::Cell<u32> = const { std::cell::Cell::new(0) };
}

/// Install a quiet panic hook that remembers message + location per thread.
pub fn quiet_panics() {
    std::panic::set_hook(Box::new(|info| {
        let msg = if let Some(s) = info.payload().downcast_ref::<&str>() {
            s.to_string()
        } else if let Some(s) = info.payload().downcast_ref::<String>() {
            s.clone()
        } else {
            "panic".to_string()
        };
        let loc = info
            .location()
            .map(|l| format!("{}:{}", l.file(), l.line()))
            .unwrap_or_default();
        if GUARD_DEPTH.with(|d| d.get()) == 0 {
            // a panic of the harness itself, not of the code under test
            eprintln!("harness panic at {loc}: {msg}");
        }
        LAST_PANIC.with(|p| *p.borrow_mut() = Some(format!("{loc}: {msg}")));
    }));
}

/// Run `f`, turning a panic of the code under test into data.
pub fn guarded<T>(f: impl FnOnce() -> T) -> Result<T, String> {
    GUARD_DEPTH.with(|d| d.set(d.get() + 1));
    let r = catch_unwind(AssertUnwindSafe(f));
    GUARD_DEPTH.with(|d| d.set(d.get() - 1));
    match r {
        Ok(v) => Ok(v),
        Err(_) => Err(LAST_PANIC
            .with(|p| p.borrow_mut().take())
            .unwrap_or_else(|| "panic".into())),
    }
}

pub fn arg<'a>(args: &'a [String], name: &str) -> Option<&'a str> {
    args.iter()
        .position(|a| a == name)
        .and_then(|i| args.get(i + 1))
        .map(|s| s.as_str())
}

pub fn req_arg<'a>(args: &'a [String], name: &str) -> &'a str {
    arg(args, name).unwrap_or_else(|| panic!("missing argument {name}"))
}

/// char boundary byte offsets of `s` (including 0 and len)
pub fn boundaries(s: &str) -> Vec<usize> {
    let mut b: Vec<usize> = s.char_indices().map(|(i, _)| i).collect();
    b.push(s.len());
    b
}

/// Shorten a panic message to its location + first line, used as a signature
pub fn panic_signature(msg: &str) -> String {
    let first = msg.lines().next().unwrap_or("");
    let mut s: String = first.chars().take(160).collect();
    // strip absolute path prefix of the repo
    s = s.replace("/repo/", "");
    s
}
