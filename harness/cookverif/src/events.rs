//! `events`: the event stream of the real PullParser, in the shape of CookParser!ParseDoc.
//! input records: {input: [symbols], ext: [extension names], osm: bool, ...}; output adds
//! obs: {st, evs}. When osm is false an empty front matter is put in front (the model's base offset is 8).
use crate::project::{diag_class, ext_bits_from_names};
use crate::sym::*;
use crate::util::*;
use cooklang::error::SourceDiag;
use cooklang::parser::{BlockKind, Event, PullParser, Quantity, QuantityValue};
use cooklang::quantity::{Number, Value};
use cooklang::located::Located;
use cooklang::text::Text;
use cooklang::Extensions;
use serde_json::{json, Value as J};

pub const FRONT: &str = "---\n---\n";

/// one symbol per character; a letter outside the table travels as its class: L2 / L3 / L4 (alphabetic, UTF-8 width),
/// which is all the lexer and the parser look at (the judge sees the same symbol in the input and in the texts)
fn sym_vec(s: &str) -> Vec<String> {
    s.chars()
        .map(|c| {
            let k = char_to_sym(c);
            if k.chars().count() == 1 && !c.is_ascii() && c.is_alphabetic() {
                format!("L{}", c.len_utf8())
            } else {
                k
            }
        })
        .collect()
}

fn syms(s: &str) -> J {
    json!(sym_vec(s))
}

fn text_rec(t: &Text) -> J {
    json!({"txt": syms(&t.text()), "s": t.span().start(), "e": t.span().end()})
}

fn opt_text(t: &Option<Text>) -> J {
    match t {
        Some(t) => json!([text_rec(t)]),
        None => json!([]),
    }
}

fn number(n: &Number) -> String {
    match n {
        Number::Regular(x) => format!("{x}"),
        Number::Fraction { whole, num, den, .. } => format!("{whole} {num}/{den}"),
    }
}

fn value(v: &Value) -> J {
    match v {
        Value::Number(n @ Number::Regular(_)) => json!({"t": "num", "txt": syms(&number(n))}),
        Value::Number(n) => json!({"t": "frac", "txt": syms(&number(n))}),
        Value::Range { start, end } => json!({"t": "range", "txt": syms(&format!("{}..{}", number(start), number(end)))}),
        Value::Text(t) => json!({"t": "text", "txt": syms(t)}),
    }
}

fn qvalue(span: cooklang::Span, v: &QuantityValue, unit: J) -> J {
    json!({"s": span.start(), "e": span.end(), "lock": v.scaling_lock.is_some(), "v": value(v.value.value()),
           "vs": v.value.span().start(), "ve": v.value.span().end(), "unit": unit})
}

fn quantity(q: &Option<Located<Quantity>>) -> J {
    match q {
        None => json!([]),
        Some(q) => json!([qvalue(q.span(), &q.value().value, opt_text(&q.value().unit))]),
    }
}

fn mods(m: cooklang::Modifiers) -> Vec<&'static str> {
    let mut v = Vec::new();
    for (f, n) in [
        (cooklang::Modifiers::RECIPE, "recipe"),
        (cooklang::Modifiers::REF, "ref"),
        (cooklang::Modifiers::HIDDEN, "hidden"),
        (cooklang::Modifiers::OPT, "opt"),
        (cooklang::Modifiers::NEW, "new"),
    ] {
        if m.contains(f) {
            v.push(n);
        }
    }
    v
}

/// finer classes than project::diag_class for the parse errors the model tells apart
fn parse_class(msg: &str) -> &'static str {
    const P: &str = "Invalid intermediate preparation reference";
    if let Some(rest) = msg.strip_prefix(P) {
        return match rest {
            ": empty" => "InterEmpty",
            ": wrong relative section order" => "InterWrongOrder",
            ": value sign" => "InterValueSign",
            "" => "InterInvalid",
            _ => diag_class(msg),
        };
    }
    diag_class(msg)
}

fn diag(kind: &str, d: &SourceDiag) -> J {
    let (s, e) = d.labels.first().map(|(sp, _)| (sp.start(), sp.end())).unwrap_or((0, 0));
    json!({"k": kind, "cls": parse_class(&d.message), "s": s, "e": e})
}

fn text_event(t: &Text) -> J {
    json!({"k": "Text", "s": t.span().start(), "e": t.span().end(), "txt": syms(&t.text())})
}

fn ingredient_json(i: &Located<cooklang::parser::Ingredient>) -> J {
    let sp = i.span();
    let i = i.value();
    let inter = match &i.intermediate_data {
        None => json!([]),
        Some(d) => json!([{"mode": format!("{:?}", d.value().ref_mode), "kind": format!("{:?}", d.value().target_kind),
                           "val": syms(&d.value().val.to_string()), "s": d.span().start(), "e": d.span().end()}]),
    };
    json!({"k": "Ingredient", "s": sp.start(), "e": sp.end(), "mods": mods(*i.modifiers.value()),
           "ms": i.modifiers.span().start(), "me": i.modifiers.span().end(), "inter": inter,
           "name": text_rec(&i.name), "alias": opt_text(&i.alias), "q": quantity(&i.quantity), "note": opt_text(&i.note)})
}

fn cookware_json(c: &Located<cooklang::parser::Cookware>) -> J {
    let sp = c.span();
    let c = c.value();
    let q = match &c.quantity {
        None => json!([]),
        Some(q) => json!([qvalue(q.span(), q.value(), json!([]))]),
    };
    json!({"k": "Cookware", "s": sp.start(), "e": sp.end(), "mods": mods(*c.modifiers.value()),
           "ms": c.modifiers.span().start(), "me": c.modifiers.span().end(),
           "name": text_rec(&c.name), "alias": opt_text(&c.alias), "q": q, "note": opt_text(&c.note)})
}

fn timer_json(t: &Located<cooklang::parser::Timer>) -> J {
    let sp = t.span();
    let t = t.value();
    json!({"k": "Timer", "s": sp.start(), "e": sp.end(), "name": opt_text(&t.name), "q": quantity(&t.quantity)})
}

fn metadata_json(key: &Text, value: &Text) -> J {
    json!({"k": "Metadata", "key": syms(&key.text()), "ks": key.span().start(), "ke": key.span().end(),
           "val": syms(&value.text()), "vs": value.span().start(), "ve": value.span().end()})
}

fn section_json(name: &Option<Text>) -> J {
    match name {
        Some(n) => json!({"k": "Section", "has": true, "name": syms(&n.text()), "s": n.span().start(), "e": n.span().end()}),
        None => json!({"k": "Section", "has": false, "name": [], "s": 0, "e": 0}),
    }
}

/// build_ast over the same parser: the blocks in the shape of CookParser!AstOf
pub fn ast(text: &str, ext: Extensions) -> J {
    use cooklang::parser::{Block, Item};
    match guarded(|| cooklang::ast::build_ast(PullParser::new(text, ext))) {
        Err(p) => json!({"st": "panic", "blocks": [], "panic": panic_signature(&p)}),
        Ok(r) => {
            let blocks: Vec<J> = match r.output() {
                None => vec![],
                Some(a) => a
                    .blocks
                    .iter()
                    .map(|b| match b {
                        Block::Metadata { key, value } => metadata_json(key, value),
                        Block::Section { name } => section_json(name),
                        Block::Step { items } => json!({"k": "Step", "items": items.iter().map(|i| match i {
                            Item::Text(t) => text_event(t),
                            Item::Ingredient(c) => ingredient_json(c),
                            Item::Cookware(c) => cookware_json(c),
                            Item::Timer(c) => timer_json(c),
                        }).collect::<Vec<_>>()}),
                        Block::TextBlock(ts) => json!({"k": "TextBlock", "items": ts.iter().map(text_event).collect::<Vec<_>>()}),
                    })
                    .collect(),
            };
            json!({"st": "ok", "blocks": blocks, "ndiags": r.report().iter().count()})
        }
    }
}

pub fn event(ev: &Event) -> Option<J> {
    Some(match ev {
        Event::YAMLFrontMatter(t) => json!({"k": "FrontMatter", "txt": syms(&t.text()), "s": t.span().start(), "e": t.span().end()}),
        Event::Metadata { key, value } => metadata_json(key, value),
        Event::Section { name } => section_json(name),
        Event::Start(b) => json!({"k": "Start", "b": if *b == BlockKind::Step { "Step" } else { "Text" }}),
        Event::End(b) => json!({"k": "End", "b": if *b == BlockKind::Step { "Step" } else { "Text" }}),
        Event::Text(t) => text_event(t),
        Event::Ingredient(i) => ingredient_json(i),
        Event::Cookware(c) => cookware_json(c),
        Event::Timer(t) => timer_json(t),
        Event::Error(d) => diag("Error", d),
        Event::Warning(d) => diag("Warning", d),
    })
}

/// `front`: keep the front matter event (whole documents) or drop it (kernel inputs behind an empty front matter)
pub fn run(text: &str, ext: Extensions, front: bool) -> J {
    match guarded(|| PullParser::new(text, ext).filter_map(|e| event(&e)).filter(|e| front || e["k"] != "FrontMatter").collect::<Vec<_>>()) {
        Ok(evs) => json!({"st": "ok", "evs": evs}),
        Err(p) => json!({"st": "panic", "evs": [], "panic": panic_signature(&p)}),
    }
}

pub fn main(args: &[String]) {
    let recs = read_ndjson(req_arg(args, "--in"));
    // --whole: `text` is a whole document (chunks); the record gets `input` = the text, one symbol per character, and
    // `whole`, so that the judge runs the specification - front matter split included - on it itself
    let whole = args.iter().any(|a| a == "--whole");
    let mut out = Vec::with_capacity(recs.len());
    for mut r in recs {
        let ext = Extensions::from_bits_truncate(ext_bits_from_names(&r["ext"]));
        if whole {
            let text = json_chunks_to_string(&r["text"]);
            r["input"] = json!(sym_vec(&text));
            r["whole"] = json!(true);
            r["osm"] = json!(true);
            r.as_object_mut().unwrap().remove("text");
            r["obs"] = run(&text, ext, true);
            r["obs"]["ast"] = ast(&text, ext);
        } else {
            let body = json_chunks_to_string(&r["input"]);
            let osm = r.get("osm").and_then(|v| v.as_bool()).unwrap_or(true);
            let text = if osm { body } else { format!("{FRONT}{body}") };
            r["obs"] = run(&text, ext, false);
            r["obs"]["ast"] = ast(&text, ext);
        }
        out.push(r);
    }
    write_ndjson(req_arg(args, "--out"), &out);
    println!("events: {} records", out.len());
}
