//! `events`: the event stream of the real PullParser, in the shape of CookParser!ParseDoc.
//! input records: {input: [symbols], ext: [extension names], osm: bool, ...}; output adds
//! obs: {st, evs}. When osm is false an empty front matter is put in front (the model's base offset is 8).
use crate::project::{diag_class, ext_bits_from_names};
use crate::sym::*;
use crate::util::*;
use cooklang::error::SourceDiag;
use cooklang::parser::{BlockKind, Event, PullParser, Quantity, QuantityValue};
use cooklang::quantity::{Number, Value};
use cooklang::located::Located;
use cooklang::text::Text;
use cooklang::Extensions;
use serde_json::{json, Value as J};

pub const FRONT: &str = "---\n---\n";

fn syms(s: &str) -> J {
    json!(str_to_syms(s))
}

fn text_rec(t: &Text) -> J {
    json!({"txt": syms(&t.text()), "s": t.span().start(), "e": t.span().end()})
}

fn opt_text(t: &Option<Text>) -> J {
    match t {
        Some(t) => json!([text_rec(t)]),
        None => json!([]),
    }
}

fn number(n: &Number) -> String {
    match n {
        Number::Regular(x) => format!("{x}"),
        Number::Fraction { whole, num, den, .. } => format!("{whole} {num}/{den}"),
    }
}

fn value(v: &Value) -> J {
    match v {
        Value::Number(n @ Number::Regular(_)) => json!({"t": "num", "txt": syms(&number(n))}),
        Value::Number(n) => json!({"t": "frac", "txt": syms(&number(n))}),
        Value::Range { start, end } => json!({"t": "range", "txt": syms(&format!("{}..{}", number(start), number(end)))}),
        Value::Text(t) => json!({"t": "text", "txt": syms(t)}),
    }
}

fn qvalue(span: cooklang::Span, v: &QuantityValue, unit: J) -> J {
    json!({"s": span.start(), "e": span.end(), "lock": v.scaling_lock.is_some(), "v": value(v.value.value()),
           "vs": v.value.span().start(), "ve": v.value.span().end(), "unit": unit})
}

fn quantity(q: &Option<Located<Quantity>>) -> J {
    match q {
        None => json!([]),
        Some(q) => json!([qvalue(q.span(), &q.value().value, opt_text(&q.value().unit))]),
    }
}

fn mods(m: cooklang::Modifiers) -> Vec<&'static str> {
    let mut v = Vec::new();
    for (f, n) in [
        (cooklang::Modifiers::RECIPE, "recipe"),
        (cooklang::Modifiers::REF, "ref"),
        (cooklang::Modifiers::HIDDEN, "hidden"),
        (cooklang::Modifiers::OPT, "opt"),
        (cooklang::Modifiers::NEW, "new"),
    ] {
        if m.contains(f) {
            v.push(n);
        }
    }
    v
}

/// finer classes than project::diag_class for the parse errors the model tells apart
fn parse_class(msg: &str) -> &'static str {
    const P: &str = "Invalid intermediate preparation reference";
    if let Some(rest) = msg.strip_prefix(P) {
        return match rest {
            ": empty" => "InterEmpty",
            ": wrong relative section order" => "InterWrongOrder",
            ": value sign" => "InterValueSign",
            "" => "InterInvalid",
            _ => diag_class(msg),
        };
    }
    diag_class(msg)
}

fn diag(kind: &str, d: &SourceDiag) -> J {
    let (s, e) = d.labels.first().map(|(sp, _)| (sp.start(), sp.end())).unwrap_or((0, 0));
    json!({"k": kind, "cls": parse_class(&d.message), "s": s, "e": e})
}

pub fn event(ev: &Event) -> Option<J> {
    Some(match ev {
        Event::YAMLFrontMatter(_) => return None,
        Event::Metadata { key, value } => json!({"k": "Metadata", "key": syms(&key.text()), "ks": key.span().start(), "ke": key.span().end(),
                                                  "val": syms(&value.text()), "vs": value.span().start(), "ve": value.span().end()}),
        Event::Section { name } => match name {
            Some(n) => json!({"k": "Section", "has": true, "name": syms(&n.text()), "s": n.span().start(), "e": n.span().end()}),
            None => json!({"k": "Section", "has": false, "name": [], "s": 0, "e": 0}),
        },
        Event::Start(b) => json!({"k": "Start", "b": if *b == BlockKind::Step { "Step" } else { "Text" }}),
        Event::End(b) => json!({"k": "End", "b": if *b == BlockKind::Step { "Step" } else { "Text" }}),
        Event::Text(t) => json!({"k": "Text", "s": t.span().start(), "e": t.span().end(), "txt": syms(&t.text())}),
        Event::Ingredient(i) => {
            let sp = i.span();
            let i = i.value();
            let inter = match &i.intermediate_data {
                None => json!([]),
                Some(d) => json!([{"mode": format!("{:?}", d.value().ref_mode), "kind": format!("{:?}", d.value().target_kind),
                                   "val": syms(&d.value().val.to_string()), "s": d.span().start(), "e": d.span().end()}]),
            };
            json!({"k": "Ingredient", "s": sp.start(), "e": sp.end(), "mods": mods(*i.modifiers.value()),
                   "ms": i.modifiers.span().start(), "me": i.modifiers.span().end(), "inter": inter,
                   "name": text_rec(&i.name), "alias": opt_text(&i.alias), "q": quantity(&i.quantity), "note": opt_text(&i.note)})
        }
        Event::Cookware(c) => {
            let sp = c.span();
            let c = c.value();
            let q = match &c.quantity {
                None => json!([]),
                Some(q) => json!([qvalue(q.span(), q.value(), json!([]))]),
            };
            json!({"k": "Cookware", "s": sp.start(), "e": sp.end(), "mods": mods(*c.modifiers.value()),
                   "ms": c.modifiers.span().start(), "me": c.modifiers.span().end(),
                   "name": text_rec(&c.name), "alias": opt_text(&c.alias), "q": q, "note": opt_text(&c.note)})
        }
        Event::Timer(t) => {
            let sp = t.span();
            let t = t.value();
            json!({"k": "Timer", "s": sp.start(), "e": sp.end(), "name": opt_text(&t.name), "q": quantity(&t.quantity)})
        }
        Event::Error(d) => diag("Error", d),
        Event::Warning(d) => diag("Warning", d),
    })
}

pub fn run(text: &str, ext: Extensions) -> J {
    match guarded(|| PullParser::new(text, ext).filter_map(|e| event(&e)).collect::<Vec<_>>()) {
        Ok(evs) => json!({"st": "ok", "evs": evs}),
        Err(p) => json!({"st": "panic", "evs": [], "panic": panic_signature(&p)}),
    }
}

/// Where the Cooklang text starts when `text` has a front matter: read off the parser's own front matter event
/// (its span is the YAML text; the closing fence line follows it).
fn cooklang_offset(text: &str) -> Option<usize> {
    let first = guarded(|| PullParser::new(text, Extensions::empty()).next()).ok().flatten()?;
    let Event::YAMLFrontMatter(t) = first else { return None };
    let fence = t.span().end();
    Some(text[fence..].find('\n').map(|i| fence + i + 1).unwrap_or(text.len()))
}

pub fn main(args: &[String]) {
    let recs = read_ndjson(req_arg(args, "--in"));
    // --whole: `text` is a whole document (chunks); the record gets `input` = the Cooklang part, one symbol per
    // character, `base` = its byte offset and `osm`, so that the judge can run the specification on it itself
    let whole = args.iter().any(|a| a == "--whole");
    let mut out = Vec::with_capacity(recs.len());
    for mut r in recs {
        let ext = Extensions::from_bits_truncate(ext_bits_from_names(&r["ext"]));
        let text = if whole {
            let text = json_chunks_to_string(&r["text"]);
            let base = cooklang_offset(&text);
            r["input"] = json!(str_to_syms(&text[base.unwrap_or(0)..]));
            r["base"] = json!(base.unwrap_or(0));
            r["osm"] = json!(base.is_none());
            r.as_object_mut().unwrap().remove("text");
            text
        } else {
            let body = json_chunks_to_string(&r["input"]);
            let osm = r.get("osm").and_then(|v| v.as_bool()).unwrap_or(true);
            if osm { body } else { format!("{FRONT}{body}") }
        };
        r["obs"] = run(&text, ext);
        out.push(r);
    }
    write_ndjson(req_arg(args, "--out"), &out);
    println!("events: {} records", out.len());
}
