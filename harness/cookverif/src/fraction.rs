//! C12 recorder: Number::new_approx on grid points (from MC_Fraction) and on seeded random /
//! special values.  Emits the result and the IEEE-754 facts TLC cannot compute itself.
use crate::util::*;
use cooklang::quantity::Number;
use rand::{Rng, SeedableRng};
use rayon::prelude::*;
use serde_json::{json, Value};

fn small(n: u32) -> i64 {
    if n < (1 << 31) {
        n as i64
    } else {
        -1
    }
}

pub fn observe(v: f64, accuracy: f32, max_den: u8, max_whole: u32) -> Value {
    let vclass = if !v.is_finite() {
        "nonfinite"
    } else if v <= 0.0 {
        "nonpos"
    } else {
        "pos"
    };
    let o = json!({
        "vclass": vclass,
        "vint": v.is_finite() && v.fract() == 0.0,
        "vtrunc_le": v.is_finite() && v.trunc() <= max_whole as f64,
        "maxWholeI": small(max_whole),
        "maxDenI": max_den,
    });
    describe(o, v, accuracy, max_whole, guarded(|| Number::new_approx(v, accuracy, max_den, max_whole)))
}

/// try_approx on a number that is already a fraction (as the parser or an earlier fit leaves it): the limits apply to
/// what comes out all the same
pub fn observe_try(whole: u32, num: u32, den: u32, accuracy: f32, max_den: u8, max_whole: u32) -> Value {
    let start = Number::Fraction { whole, num, den, err: 0.0 };
    let v = whole as f64 + num as f64 / den as f64;
    let o = json!({
        "vclass": "pos",
        "vint": v.fract() == 0.0,
        "vtrunc_le": v.trunc() <= max_whole as f64,
        "maxWholeI": small(max_whole),
        "maxDenI": max_den,
    });
    let r = guarded(|| {
        let mut x = start.clone();
        if x.try_approx(accuracy, max_den, max_whole) { Some(x) } else { None }
    });
    describe(o, v, accuracy, max_whole, r)
}

fn describe(mut o: Value, v: f64, accuracy: f32, max_whole: u32, result: Result<Option<Number>, String>) -> Value {
    match result {
        Err(p) => {
            o["obs"] = json!({"kind": "panic", "sig": panic_signature(&p)});
        }
        Ok(None) => o["obs"] = json!({"kind": "none"}),
        Ok(Some(n)) => {
            // value() and Display belong to the code under test too: a panic in them is data
            let rendered = guarded(|| (n.value(), n.to_string()));
            let Ok((value, shown)) = rendered else {
                o["obs"] = json!({"kind": "panic", "sig": panic_signature(&rendered.err().unwrap_or_default())});
                return o;
            };
            let exact = value == v || (value - v).abs() <= 4.0 * f64::EPSILON * v.abs();
            match n {
                Number::Regular(x) => {
                    o["obs"] = json!({"kind": "regular", "exact": x == v, "whole": if x < 2147483648.0 { x.trunc() as i64 } else { -1 },
                                      "whole_le_max": x.trunc() <= max_whole as f64, "display": shown});
                }
                Number::Fraction { whole, num, den, err } => {
                    let within = err.abs() <= (accuracy as f64) * v * (1.0 + 1e-12);
                    o["obs"] = json!({"kind": "fraction", "exact": exact, "errWithin": within && err.is_finite(),
                                      "whole": small(whole), "whole_le_max": whole <= max_whole,
                                      "num": small(num), "den": small(den), "display": shown});
                }
            }
        }
    }
    o
}

/// `fraction --in grid.ndjson --out obs.ndjson --random N`
pub fn main(args: &[String]) {
    let recs = read_ndjson(req_arg(args, "--in"));
    let mut out: Vec<Value> = recs
        .par_iter()
        .map(|r| {
            let g = r["G"].as_f64().unwrap();
            let v = r["W"].as_f64().unwrap() + r["j"].as_f64().unwrap() / g;
            let acc = (r["acc"].as_f64().unwrap() / 100.0) as f32;
            let mw = r["maxWhole"].as_u64().unwrap();
            let mw = if mw >= 1_000_000 { u32::MAX } else { mw as u32 };
            let mut o = observe(v, acc, r["maxDen"].as_u64().unwrap() as u8, mw);
            o["pred"] = r["pred"].clone();
            o["src"] = json!(format!("{}+{}/{} acc={}% maxDen={} maxWhole={}", r["W"], r["j"], r["G"], r["acc"], r["maxDen"], r["maxWhole"]));
            o
        })
        .collect();
    // seeded random and special values, no prediction
    let n: usize = arg(args, "--random").unwrap_or("0").parse().unwrap();
    let seed: u64 = std::env::var("VERIF_SEED").ok().and_then(|s| s.parse().ok()).unwrap_or(1);
    let mut rng = rand::rngs::StdRng::seed_from_u64(seed);
    let specials = [0.0, -0.0, -1.5, f64::NAN, f64::INFINITY, f64::NEG_INFINITY, f64::MIN_POSITIVE, 5e-324, 1e-11, 0.99999999999,
                    4294967294.5, 4294967295.0, 4294967295.5, 4294967296.0, 5000000000.5, 1e300, f64::MAX, 0.97, 5.9, 4.96,
                    399.9999, 400.0001, 1.00000000001, 0.2501, 0.3333333333333333, 0.6666666666666666, 2147483647.5, 2147483648.25];
    let dens = [0u8, 1, 2, 3, 4, 5, 8, 10, 16, 32, 64];
    let wholes = [0u32, 1, 4, 5, 400, 2147483647, 2147483648, u32::MAX - 1, u32::MAX];
    let mut pts = Vec::new();
    for v in specials {
        for d in dens {
            for w in wholes {
                for a in [0.0f32, 0.05, 0.3, 1.0] {
                    pts.push((v, a, d, w));
                }
            }
        }
    }
    for _ in 0..n {
        let v = match rng.gen_range(0..5) {
            0 => rng.gen_range(0.0..1.0),
            1 => rng.gen_range(0.0..20.0),
            2 => rng.gen_range(0.0..1000.0),
            3 => (rng.gen_range(0..5000) as f64) + (rng.gen_range(0..64) as f64) / 64.0 + rng.gen_range(-0.02..0.02),
            _ => 10f64.powf(rng.gen_range(-12.0..12.0)),
        };
        let a: f32 = if rng.gen_bool(0.3) { [0.0, 0.01, 0.05, 0.1, 0.5, 1.0][rng.gen_range(0..6)] } else { rng.gen_range(0.0..=1.0) };
        pts.push((v, a, rng.gen_range(0..=64u8), wholes[rng.gen_range(0..wholes.len())]));
    }
    // numbers that already are fractions (written in a recipe, or left by an earlier fit) through try_approx
    let mut tries = Vec::new();
    for (w, n, d) in [(1u32, 7u32, 9u32), (0, 5, 4), (7, 1, 2), (2, 7, 16), (0, 1, 3), (3, 3, 8), (0, 9, 10), (12, 0, 1), (0, 1, 64), (5, 15, 16)] {
        for md in [1u8, 2, 4, 8, 10, 16, 64] {
            for mw in [0u32, 1, 5, 400, u32::MAX] {
                for a in [0.0f32, 0.05, 0.3, 1.0] {
                    let mut o = observe_try(w, n, d, a, md, mw);
                    o["src"] = json!(format!("try_approx of {w} {n}/{d} acc={a} maxDen={md} maxWhole={mw}"));
                    tries.push(o);
                }
            }
        }
    }
    out.extend(tries);
    let extra: Vec<Value> = pts
        .par_iter()
        .map(|(v, a, d, w)| {
            let mut o = observe(*v, *a, *d, *w);
            o["src"] = json!(format!("v={v:e} acc={a} maxDen={d} maxWhole={w}"));
            o
        })
        .collect();
    out.extend(extra);
    write_ndjson(req_arg(args, "--out"), &out);
    println!("fraction: {} records ({} grid points)", out.len(), recs.len());
}
