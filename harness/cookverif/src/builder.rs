//! C16 recorder: feeds sequences of units files (in serde's JSON shape, as printed by MC_Builder)
//! to the real ConverterBuilder and records the outcome and, for a built converter, what it answers.
use crate::util::*;
use cooklang::convert::{Converter, ConverterBuilderError, PhysicalQuantity, System, UnitsFile};
use rayon::prelude::*;
use serde_json::{json, Value};

fn qname(q: PhysicalQuantity) -> &'static str {
    match q {
        PhysicalQuantity::Volume => "volume",
        PhysicalQuantity::Mass => "mass",
        PhysicalQuantity::Length => "length",
        PhysicalQuantity::Temperature => "temperature",
        PhysicalQuantity::Time => "time",
    }
}
const QS: [PhysicalQuantity; 5] = [PhysicalQuantity::Volume, PhysicalQuantity::Mass, PhysicalQuantity::Length, PhysicalQuantity::Temperature, PhysicalQuantity::Time];

fn err_name(e: &ConverterBuilderError) -> &'static str {
    match e {
        ConverterBuilderError::DuplicateUnit { .. } => "DuplicateUnit",
        ConverterBuilderError::DuplicateExtendUnit { .. } => "DuplicateExtendUnit",
        ConverterBuilderError::InvalidExtendExpanded { .. } => "InvalidExtendExpanded",
        ConverterBuilderError::UnknownUnit(_) => "UnknownUnit",
        ConverterBuilderError::EmptyUnit { .. } => "EmptyUnit",
        ConverterBuilderError::EmptyUnitKey { .. } => "EmptyUnitKey",
        ConverterBuilderError::EmptyBest { .. } => "EmptyBest",
        ConverterBuilderError::EmptySIPrefixes => "EmptySIPrefixes",
        ConverterBuilderError::BestUnitQuantity { .. } => "BestUnitWrongQuantity",
    }
}

fn unit_view(u: &cooklang::convert::Unit) -> Value {
    let v = |x: &Vec<std::sync::Arc<str>>| x.iter().map(|s| s.to_string()).collect::<Vec<_>>();
    json!({"names": v(&u.names), "symbols": v(&u.symbols), "aliases": v(&u.aliases), "ratio": (u.ratio * 1000.0).round() as i64,
           "q": qname(u.physical_quantity),
           "sys": match u.system { Some(System::Metric) => "metric", Some(System::Imperial) => "imperial", None => "none" }})
}

pub fn observe(files: &[Value], extra_keys: &[String]) -> Value {
    let parsed: Result<Vec<UnitsFile>, _> = files.iter().map(|f| serde_json::from_value::<UnitsFile>(f.clone())).collect();
    let parsed = match parsed {
        Ok(p) => p,
        Err(e) => return json!({"outcome": "undeserialisable", "why": e.to_string()}),
    };
    let built = guarded(|| {
        let mut b = Converter::builder();
        for f in parsed {
            b.add_units_file(f)?;
        }
        b.finish()
    });
    match built {
        Err(p) => json!({"outcome": "panic", "sig": panic_signature(&p)}),
        Ok(Err(e)) => json!({"outcome": "rejected", "reason": err_name(&e)}),
        Ok(Ok(conv)) => {
            let r = guarded(|| {
                let units: Vec<Value> = conv.all_units().map(unit_view).collect();
                let all: Vec<&cooklang::convert::Unit> = conv.all_units().collect();
                // what every key found on a unit, and every key the specification expects, resolves to (1-based unit id, 0 = nothing)
                let mut keys: Vec<String> = all.iter().flat_map(|u| u.names.iter().chain(&u.symbols).chain(&u.aliases).map(|k| k.to_string())).collect();
                keys.extend(extra_keys.iter().cloned());
                keys.sort();
                keys.dedup();
                let lookups: Vec<Value> = keys
                    .iter()
                    .map(|k| {
                        let id = conv.find_unit(k).and_then(|f| all.iter().position(|u| std::ptr::eq(*u, f.as_ref()))).map(|i| i + 1).unwrap_or(0);
                        json!({"k": k, "id": id})
                    })
                    .collect();
                let mut best = serde_json::Map::new();
                for q in QS {
                    let lists: Vec<Value> = [Some(System::Metric), Some(System::Imperial)]
                        .iter()
                        .map(|s| {
                            Value::Array(
                                conv.best_units(q, *s)
                                    .iter()
                                    .map(|u| json!({"id": all.iter().position(|x| std::ptr::eq(*x, u.as_ref())).map(|i| i + 1).unwrap_or(0),
                                                    "ratio": (u.ratio * 1000.0).round() as i64, "q": qname(u.physical_quantity)}))
                                    .collect(),
                            )
                        })
                        .collect();
                    best.insert(qname(q).to_string(), Value::Array(lists));
                }
                json!({"outcome": "built", "units": units, "lookups": lookups, "best": best})
            });
            r.unwrap_or_else(|p| json!({"outcome": "panic", "sig": panic_signature(&p)}))
        }
    }
}

/// `builder --in f --out f`
pub fn main(args: &[String]) {
    let recs = read_ndjson(req_arg(args, "--in"));
    let mut out: Vec<Value> = recs
        .par_iter()
        .map(|r| {
            let files = r["files"].as_array().cloned().unwrap_or_default();
            let extra: Vec<String> = r["pred"]["index"].as_array().map(|a| a.iter().map(|e| e["k"].as_str().unwrap().to_string()).collect()).unwrap_or_default();
            let mut o = json!({"pred": r["pred"], "obs": observe(&files, &extra), "nfiles": files.len(), "kind": "layers"});
            o["files"] = r["files"].clone();
            o
        })
        .collect();
    // the default converter equals the one built from the shipped units file
    let shipped = std::fs::read_to_string("/repo/units.toml").ok().and_then(|t| toml::from_str::<UnitsFile>(&t).ok());
    let same = match shipped {
        Some(f) => guarded(|| Converter::builder().with_units_file(f).and_then(|b| b.finish()).map(|c| c == Converter::default())),
        None => Ok(Ok(false)),
    };
    out.push(json!({"kind": "default", "files": [], "nfiles": 0, "pred": {"outcome": "built"},
                    "obs": {"outcome": match same { Ok(Ok(true)) => "built", Ok(Ok(false)) => "differs", Ok(Err(_)) => "rejected", Err(_) => "panic" }}}));
    write_ndjson(req_arg(args, "--out"), &out);
    println!("builder: {} records", out.len());
}
