//! C16 recorder: feeds sequences of units files (in serde's JSON shape, as printed by MC_Builder)
//! to the real ConverterBuilder and records the outcome and, for a built converter, what it answers.
use crate::util::*;
use cooklang::convert::{Converter, ConverterBuilderError, PhysicalQuantity, System, UnitsFile};
use rayon::prelude::*;
use serde_json::{json, Value};

fn qname(q: PhysicalQuantity) -> &'static str {
    match q {
        PhysicalQuantity::Volume => "volume",
        PhysicalQuantity::Mass => "mass",
        PhysicalQuantity::Length => "length",
        PhysicalQuantity::Temperature => "temperature",
        PhysicalQuantity::Time => "time",
    }
}
const QS: [PhysicalQuantity; 5] = [PhysicalQuantity::Volume, PhysicalQuantity::Mass, PhysicalQuantity::Length, PhysicalQuantity::Temperature, PhysicalQuantity::Time];

fn err_name(e: &ConverterBuilderError) -> &'static str {
    match e {
        ConverterBuilderError::DuplicateUnit { .. } => "DuplicateUnit",
        ConverterBuilderError::DuplicateExtendUnit { .. } => "DuplicateExtendUnit",
        ConverterBuilderError::InvalidExtendExpanded { .. } => "InvalidExtendExpanded",
        ConverterBuilderError::UnknownUnit(_) => "UnknownUnit",
        ConverterBuilderError::EmptyUnit { .. } => "EmptyUnit",
        ConverterBuilderError::EmptyUnitKey { .. } => "EmptyUnitKey",
        ConverterBuilderError::EmptyBest { .. } => "EmptyBest",
        ConverterBuilderError::EmptySIPrefixes => "EmptySIPrefixes",
        ConverterBuilderError::BestUnitQuantity { .. } => "BestUnitWrongQuantity",
        // a variant added to the library later: the class of an error is only compared as drift
        #[allow(unreachable_patterns)]
        _ => "Other",
    }
}

fn unit_view(u: &cooklang::convert::Unit) -> Value {
    let v = |x: &Vec<std::sync::Arc<str>>| x.iter().map(|s| s.to_string()).collect::<Vec<_>>();
    json!({"names": v(&u.names), "symbols": v(&u.symbols), "aliases": v(&u.aliases), "ratio": (u.ratio * 1000.0).round() as i64,
           "q": qname(u.physical_quantity),
           "sys": match u.system { Some(System::Metric) => "metric", Some(System::Imperial) => "imperial", None => "none" }})
}

pub fn observe(files: &[Value], extra_keys: &[String]) -> Value {
    let parsed: Result<Vec<UnitsFile>, _> = files.iter().map(|f| serde_json::from_value::<UnitsFile>(f.clone())).collect();
    let parsed = match parsed {
        Ok(p) => p,
        Err(e) => return json!({"outcome": "undeserialisable", "why": e.to_string()}),
    };
    let built = guarded(|| {
        let mut b = Converter::builder();
        for f in parsed {
            b.add_units_file(f)?;
        }
        b.finish()
    });
    match built {
        Err(p) => json!({"outcome": "panic", "sig": panic_signature(&p)}),
        Ok(Err(e)) => json!({"outcome": "rejected", "reason": err_name(&e)}),
        Ok(Ok(conv)) => {
            let r = guarded(|| {
                let units: Vec<Value> = conv.all_units().map(unit_view).collect();
                let all: Vec<&cooklang::convert::Unit> = conv.all_units().collect();
                // what every key found on a unit, and every key the specification expects, resolves to (1-based unit id, 0 = nothing)
                let mut keys: Vec<String> = all.iter().flat_map(|u| u.names.iter().chain(&u.symbols).chain(&u.aliases).map(|k| k.to_string())).collect();
                keys.extend(extra_keys.iter().cloned());
                keys.sort();
                keys.dedup();
                let lookups: Vec<Value> = keys
                    .iter()
                    .map(|k| {
                        let id = conv.find_unit(k).and_then(|f| all.iter().position(|u| std::ptr::eq(*u, f.as_ref()))).map(|i| i + 1).unwrap_or(0);
                        json!({"k": k, "id": id})
                    })
                    .collect();
                let mut best = serde_json::Map::new();
                for q in QS {
                    let lists: Vec<Value> = [Some(System::Metric), Some(System::Imperial)]
                        .iter()
                        .map(|s| {
                            Value::Array(
                                conv.best_units(q, *s)
                                    .iter()
                                    .map(|u| json!({"id": all.iter().position(|x| std::ptr::eq(*x, u.as_ref())).map(|i| i + 1).unwrap_or(0),
                                                    "ratio": (u.ratio * 1000.0).round() as i64, "q": qname(u.physical_quantity)}))
                                    .collect(),
                            )
                        })
                        .collect();
                    best.insert(qname(q).to_string(), Value::Array(lists));
                }
                json!({"outcome": "built", "units": units, "lookups": lookups, "best": best})
            });
            r.unwrap_or_else(|p| json!({"outcome": "panic", "sig": panic_signature(&p)}))
        }
    }
}

/// C09 on converters built from layers: every ordered pair of the PREDICTED units of one physical quantity, addressed by
/// each unit's first key, converted both through Converter::convert and through a quantity; the amount must be the one
/// implied by the predicted ratios (the specification's unit table, not the built converter's)
pub fn conversions(files: &[Value], pred_units: &[Value]) -> Value {
    use cooklang::convert::{ConvertTo, ConvertUnit, ConvertValue};
    use cooklang::quantity::{Quantity, Value as QValue};
    let parsed: Result<Vec<UnitsFile>, _> = files.iter().map(|f| serde_json::from_value::<UnitsFile>(f.clone())).collect();
    let Ok(parsed) = parsed else { return json!({"st": "undeserialisable"}) };
    let built = guarded(|| {
        let mut b = Converter::builder();
        for f in parsed {
            b.add_units_file(f)?;
        }
        b.finish()
    });
    let Ok(Ok(conv)) = built else { return json!({"st": "notbuilt"}) };
    let key = |u: &Value| -> Option<String> {
        ["symbols", "names", "aliases"].iter().find_map(|k| u[*k].as_array().and_then(|a| a.first()).and_then(|x| x.as_str()).map(|x| x.to_string()))
    };
    let mut pairs = 0;
    let mut bad = 0;
    let mut first = String::new();
    for a in pred_units {
        for b in pred_units {
            let (Some(ka), Some(kb)) = (key(a), key(b)) else { continue };
            if a["q"] != b["q"] {
                continue;
            }
            let (ra, rb) = (a["ratio"].as_f64().unwrap_or(1.0), b["ratio"].as_f64().unwrap_or(1.0));
            for v in [3.0f64, 0.25] {
                pairs += 1;
                let want = v * ra / rb;
                let close = |x: f64| (x - want).abs() <= 1e-9 * want.abs().max(1e-12);
                let direct = guarded(|| conv.convert(ConvertValue::Number(v), ConvertUnit::Key(&ka), ConvertTo::Unit(ConvertUnit::Key(&kb))));
                let ok1 = matches!(direct, Ok(Ok((ConvertValue::Number(x), _))) if close(x));
                let mut q = Quantity::new(QValue::Number(v.into()), Some(ka.clone()));
                let ok2 = matches!(guarded(|| q.convert(kb.as_str(), &conv).map(|_| match q.value() { QValue::Number(n) => n.value(), _ => f64::NAN })),
                                   Ok(Ok(x)) if (x - want).abs() <= 1e-6 * want.abs().max(1e-12));
                if !(ok1 && ok2) {
                    bad += 1;
                    if first.is_empty() {
                        first = format!("{v} {ka} -> {kb}: want {want}, Converter::convert {:?}, quantity {}", direct.ok().map(|r| r.ok().map(|(v, _)| format!("{v:?}"))), q);
                    }
                }
            }
        }
    }
    json!({"st": "built", "pairs": pairs, "bad": bad, "first": first})
}

/// `builder --in f --out f`
pub fn main(args: &[String]) {
    let recs = read_ndjson(req_arg(args, "--in"));
    if args.iter().any(|a| a == "--conversions") {
        let out: Vec<Value> = recs
            .par_iter()
            .filter(|r| r["pred"]["outcome"] == "built")
            .map(|r| {
                let files = r["files"].as_array().cloned().unwrap_or_default();
                let units = r["pred"]["units"].as_array().cloned().unwrap_or_default();
                let mut o = conversions(&files, &units);
                o["kind_rec"] = json!("layered");
                o["files"] = r["files"].clone();
                o
            })
            .collect();
        write_ndjson(req_arg(args, "--out"), &out);
        println!("builder: {} layered converters", out.len());
        return;
    }
    let mut out: Vec<Value> = recs
        .par_iter()
        .map(|r| {
            let files = r["files"].as_array().cloned().unwrap_or_default();
            let extra: Vec<String> = r["pred"]["index"].as_array().map(|a| a.iter().map(|e| e["k"].as_str().unwrap().to_string()).collect()).unwrap_or_default();
            let mut o = json!({"pred": r["pred"], "obs": observe(&files, &extra), "nfiles": files.len(), "kind": "layers"});
            o["files"] = r["files"].clone();
            o
        })
        .collect();
    // the default converter equals the one built from the shipped units file
    let shipped = std::fs::read_to_string(format!("{}/units.toml", std::env::var("COOKLANG_REPO").unwrap_or_else(|_| "/repo".to_string()))).ok().and_then(|t| toml::from_str::<UnitsFile>(&t).ok());
    let same = match shipped {
        Some(f) => guarded(|| Converter::builder().with_units_file(f).and_then(|b| b.finish()).map(|c| c == Converter::default())),
        None => Ok(Ok(false)),
    };
    out.push(json!({"kind": "default", "files": [], "nfiles": 0, "pred": {"outcome": "built"},
                    "obs": {"outcome": match same { Ok(Ok(true)) => "built", Ok(Ok(false)) => "differs", Ok(Err(_)) => "rejected", Err(_) => "panic" }}}));
    write_ndjson(req_arg(args, "--out"), &out);
    println!("builder: {} records", out.len());
}
