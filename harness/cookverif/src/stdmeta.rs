//! C13 recorder: one standard metadata key with one value, through `>>` or a YAML front matter,
//! with the bundled, the empty and a renamed-units converter: did the parser warn, and what do
//! the accessors return.
use crate::project::s;
use crate::sym::*;
use crate::util::*;
use cooklang::convert::{Converter, UnitsFile};
use cooklang::metadata::{CooklangValueExt, RecipeTime};
use cooklang::{CooklangParser, Extensions};
use rayon::prelude::*;
use serde_json::{json, Value};

pub const RENAMED_UNITS: &str = r#"
default_system = "metric"
[[quantity]]
quantity = "volume"
best = ["litro"]
units = [ { names = ["litro", "litros"], symbols = ["lt"], ratio = 1 } ]
[[quantity]]
quantity = "mass"
best = ["gramo"]
units = [ { names = ["gramo", "gramos"], symbols = ["gr"], ratio = 1 } ]
[[quantity]]
quantity = "length"
best = ["metro"]
units = [ { names = ["metro", "metros"], symbols = ["mt"], ratio = 1 } ]
[[quantity]]
quantity = "temperature"
best = ["grado"]
units = [ { names = ["grado", "grados"], symbols = ["gd"], ratio = 1 } ]
[[quantity]]
quantity = "time"
best = ["segundo", "min", "hora", "dia"]
units = [
    { names = ["segundo", "segundos"], symbols = ["sg"], ratio = 1 },
    { names = ["minuto", "minutos"], symbols = ["min"], ratio = 60 },
    { names = ["hora", "horas"], symbols = ["hr"], ratio = 3600 },
    { names = ["dia", "dias"], symbols = ["di"], ratio = 86400 },
]
"#;

/// time units that cannot be found under any English minutes key, and a metre whose symbol is `m`
const NOMINUTES_UNITS: &str = r#"
[[quantity]]
quantity = "volume"
best = ["litro"]
units = [ { names = ["litro", "litros"], symbols = ["lt"], ratio = 1 } ]
[[quantity]]
quantity = "mass"
best = ["gramo"]
units = [ { names = ["gramo", "gramos"], symbols = ["gr"], ratio = 1 } ]
[[quantity]]
quantity = "temperature"
best = ["grado"]
units = [ { names = ["grado", "grados"], symbols = ["gd"], ratio = 1 } ]
[[quantity]]
quantity = "length"
best = ["metro"]
units = [
    { names = ["metro", "metros"], symbols = ["m"], ratio = 1 },
    { names = ["kilometro"], symbols = ["km"], ratio = 1000 },
    { names = ["pie", "feet"], symbols = ["ft"], ratio = 0.3048 },
]
[[quantity]]
quantity = "time"
best = ["segundo", "minuto", "hora"]
units = [
    { names = ["segundo", "segundos"], symbols = ["sg"], ratio = 1 },
    { names = ["minuto", "minutos"], symbols = ["mn"], ratio = 60 },
    { names = ["hora", "horas"], symbols = ["hr"], ratio = 3600 },
]
"#;

pub fn converter_named(name: &str) -> Converter {
    match name {
        "empty" | "e" => Converter::empty(),
        "nominutes" => {
            let f: UnitsFile = toml::from_str(NOMINUTES_UNITS).expect("nominutes units file");
            Converter::builder().with_units_file(f).expect("add").finish().expect("finish nominutes converter")
        }
        "renamed" => {
            let f: UnitsFile = toml::from_str(RENAMED_UNITS).expect("renamed units file");
            Converter::builder().with_units_file(f).expect("add").finish().expect("finish renamed converter")
        }
        _ => Converter::bundled(),
    }
}

fn none() -> Value {
    json!({"t": "none"})
}

fn accessor(key: &str, v: &serde_yaml::Value, conv: &Converter) -> Value {
    match key {
        "time" | "duration" | "time required" => match v.as_time(conv) {
            Some(RecipeTime::Total(n)) => json!({"t": "minutes", "n": n.to_string()}),
            Some(RecipeTime::Composed { prep_time, cook_time }) => {
                json!({"t": "composed", "prep": prep_time.map(|x| x.to_string()).unwrap_or_default(), "cook": cook_time.map(|x| x.to_string()).unwrap_or_default()})
            }
            None => none(),
        },
        "prep time" | "cook time" | "prep_time" | "cook_time" => match v.as_minutes(conv) {
            Some(n) => json!({"t": "minutes", "n": n.to_string()}),
            None => none(),
        },
        "servings" | "serves" | "yield" => match v.as_servings() {
            Some(ns) => json!({"t": "servings", "ns": ns.iter().map(|n| n.to_string()).collect::<Vec<_>>()}),
            None => none(),
        },
        "tags" | "tag" => match v.as_tags() {
            Some(ts) => json!({"t": "tags", "ts": ts.iter().map(|t| s(t)).collect::<Vec<_>>()}),
            None => none(),
        },
        "author" | "source" => match v.as_name_and_url() {
            Some(nu) => json!({"t": "nameurl", "name": nu.name().map(s).unwrap_or_default(), "url": nu.url().map(s).unwrap_or_default()}),
            None => none(),
        },
        "locale" => match v.as_locale() {
            Some((l, d)) => json!({"t": "locale", "lang": l, "dial": d.unwrap_or("")}),
            None => none(),
        },
        _ => none(),
    }
}

/// what the typed convenience accessor of `Metadata` says for the canonical key names ("" = not applicable)
fn metadata_accessor(key: &str, m: &cooklang::Metadata, conv: &Converter) -> Value {
    match key {
        "time" => match m.time(conv) {
            Some(RecipeTime::Total(n)) => json!({"t": "minutes", "n": n.to_string()}),
            Some(_) => json!({"t": "composed"}),
            None => none(),
        },
        "servings" => m.servings().map(|ns| json!({"t": "servings", "ns": ns.iter().map(|n| n.to_string()).collect::<Vec<_>>()})).unwrap_or(none()),
        "tags" => m.tags().map(|ts| json!({"t": "tags", "ts": ts.iter().map(|t| s(t)).collect::<Vec<_>>()})).unwrap_or(none()),
        "author" => m.author().map(|nu| json!({"t": "nameurl", "name": nu.name().map(s).unwrap_or_default(), "url": nu.url().map(s).unwrap_or_default()})).unwrap_or(none()),
        "source" => m.source().map(|nu| json!({"t": "nameurl", "name": nu.name().map(s).unwrap_or_default(), "url": nu.url().map(s).unwrap_or_default()})).unwrap_or(none()),
        "locale" => m.locale().map(|(l, d)| json!({"t": "locale", "lang": l, "dial": d.unwrap_or("")})).unwrap_or(none()),
        _ => json!({"t": "n/a"}),
    }
}

/// a value in the documented form of every checked key
fn control_value(key: &str) -> &'static str {
    match key {
        "servings" | "serves" | "yield" => "2",
        "tags" => "a",
        "locale" => "en",
        "author" | "source" | "source.name" | "source.url" | "author.name" | "author.url" => "x",
        _ => "5",
    }
}

/// `extra`: other entries (key: value lines) written before the entry under test
pub fn doc_text(key: &str, val: &str, style: &str, extra: &[(String, String)]) -> String {
    let pre: String = extra.iter().map(|(k, v)| if style == "old" { format!(">> {k}: {v}\n") } else { format!("{k}: {v}\n") }).collect();
    match style {
        "old" => format!("{pre}>> {key}: {val}\nstep\n"),
        "yamlstring" => format!("---\n{pre}{key}: \"{}\"\n---\nstep\n", val.replace('\\', "\\\\").replace('"', "\\\"")),
        _ => format!("---\n{pre}{key}: {val}\n---\nstep\n"),
    }
}

/// `stdmeta --in f --out f`
pub fn main(args: &[String]) {
    let recs = read_ndjson(req_arg(args, "--in"));
    let convs: std::collections::HashMap<&str, Converter> =
        ["bundled", "empty", "renamed", "nominutes"].iter().map(|c| (*c, converter_named(c))).collect();
    let out: Vec<Value> = recs
        .par_iter()
        .map(|r| {
            let key = r["key"].as_str().unwrap();
            let val = json_chunks_to_string(&r["val"]);
            let style = r["style"].as_str().unwrap();
            let conv = &convs[r["conv"].as_str().unwrap()];
            let extra: Vec<(String, String)> = r.get("extra").and_then(|e| e.as_array()).map(|a| {
                a.iter().map(|p| (p[0].as_str().unwrap_or("").to_string(), p[1].as_str().unwrap_or("").to_string())).collect()
            }).unwrap_or_default();
            let text = doc_text(key, &val, style, &extra);
            let parser = CooklangParser::new(Extensions::all(), conv.clone());
            let mut o = r.clone();
            o["text"] = json!(text);
            match guarded(|| parser.parse(&text)) {
                Err(p) => o["obs"] = json!({"st": "panic", "sig": panic_signature(&p)}),
                Ok(res) => {
                    // "a warning at parse time" is told apart from the deprecation notice and from warnings about other entries
                    // without relying on its wording: some warning occurs more often than in the same document written with a
                    // value in the documented form
                    let control = parser.parse(&doc_text(key, control_value(key), if style == "old" { "old" } else { "yaml" }, &extra));
                    let count = |rep: &cooklang::error::SourceReport, m: &str| rep.warnings().filter(|d| d.message == m).count();
                    let warned = res.report().warnings().any(|d| count(res.report(), &d.message) > count(control.report(), &d.message));
                    let errors = res.report().errors().count();
                    match res.output() {
                        None => o["obs"] = json!({"st": "nooutput", "warned": warned, "errors": errors}),
                        Some(rec) => {
                            let v = rec.metadata.map.get(key);
                            let acc = match v {
                                Some(v) => guarded(|| accessor(key, v, conv)).unwrap_or(json!({"t": "panic"})),
                                None => json!({"t": "missing"}),
                            };
                            let macc = guarded(|| metadata_accessor(key, &rec.metadata, conv)).unwrap_or(json!({"t": "panic"}));
                            o["obs"] = json!({"st": "ok", "warned": warned, "errors": errors, "acc": acc, "macc": macc,
                                              "scaling_servings": rec.servings().map(|s| s.iter().map(|n| n.to_string()).collect::<Vec<_>>()).unwrap_or_default()});
                        }
                    }
                }
            }
            o
        })
        .collect();
    write_ndjson(req_arg(args, "--out"), &out);
    println!("stdmeta: {} records", out.len());
}
