//! C11 recorder: feeds inputs to aisle::parse / write / ingredients_info and
//! writes what happened. No judgement is made here; Trace_Aisle.tla judges.
use crate::sym::*;
use crate::util::*;
use cooklang::aisle;
use rayon::prelude::*;
use serde_json::{json, Value};

fn span_json(s: cooklang::Span) -> Value {
    json!({"s": s.start(), "e": s.end()})
}

fn cats_json(conf: &aisle::AisleConf) -> Value {
    Value::Array(
        conf.categories
            .iter()
            .map(|c| {
                json!({
                    "name": str_to_syms(c.name),
                    "igrs": c.ingredients.iter().map(|i| {
                        Value::Array(i.names.iter().map(|n| json!(str_to_syms(n))).collect())
                    }).collect::<Vec<_>>(),
                })
            })
            .collect(),
    )
}

pub fn observe(text: &str) -> Value {
    let parsed = guarded(|| {
        aisle::parse(text).map(|c| {
            // owned copy of everything we need while `text` is alive
            let cats = cats_json(&c);
            let mut written = Vec::new();
            let wres = guarded(|| aisle::write(&c, &mut written));
            let written_s = String::from_utf8_lossy(&written).into_owned();
            let rt = match &wres {
                Ok(Ok(())) => match guarded(|| aisle::parse(&written_s).map(|c2| c2 == c)) {
                    Ok(Ok(eq)) => {
                        if eq {
                            "same"
                        } else {
                            "differs"
                        }
                    }
                    Ok(Err(_)) => "reparse_error",
                    Err(_) => "reparse_panic",
                },
                Ok(Err(_)) => "write_error",
                Err(_) => "write_panic",
            };
            let lookup = guarded(|| {
                let info = c.ingredients_info();
                let mut v: Vec<Value> = info
                    .iter()
                    .map(|(k, i)| {
                        json!({"key": str_to_syms(k), "name": str_to_syms(i.name),
                               "common": str_to_syms(i.common_name), "category": str_to_syms(i.category)})
                    })
                    .collect();
                v.sort_by_key(|x| x["key"].to_string());
                v
            });
            let (lookup, lookup_ok) = match lookup {
                Ok(v) => (v, true),
                Err(_) => (vec![], false),
            };
            // the same configuration through the bindings: what category_for answers for every listed name
            let names: Vec<String> = c.categories.iter().flat_map(|k| k.ingredients.iter().flat_map(|i| i.names.iter().map(|n| n.to_string()))).collect();
            let ffi = guarded(|| {
                let conf = ffi_shim::parse_aisle_config(text.to_string());
                names.iter().map(|n| json!({"key": str_to_syms(n), "category": conf.category_for(n.clone()).map(|x| json!(str_to_syms(&x))).unwrap_or(Value::Null)})).collect::<Vec<_>>()
            });
            let (ffi, ffi_ok) = match ffi {
                Ok(v) => (v, true),
                Err(_) => (vec![], false),
            };
            json!({"st": "ok", "cats": cats, "rt": rt, "written": str_to_syms(&written_s),
                   "lookup": lookup, "lookup_ran": lookup_ok, "ffi": ffi, "ffi_ran": ffi_ok})
        })
    });
    match parsed {
        Ok(Ok(v)) => v,
        Ok(Err(e)) => match e {
            aisle::AisleConfError::Parse { span, .. } => {
                json!({"st": "err", "kind": "Parse", "name": [], "first": span_json(span), "second": {"s":0,"e":0}})
            }
            aisle::AisleConfError::DuplicateCategory { name, first_span, second_span } => {
                json!({"st": "err", "kind": "DuplicateCategory", "name": str_to_syms(&name),
                       "first": span_json(first_span), "second": span_json(second_span)})
            }
            aisle::AisleConfError::DuplicateIngredient { name, first_span, second_span } => {
                json!({"st": "err", "kind": "DuplicateIngredient", "name": str_to_syms(&name),
                       "first": span_json(first_span), "second": span_json(second_span)})
            }
        },
        Err(p) => json!({"st": "panic", "panic": panic_signature(&p)}),
    }
}

/// `aisle --in <replay.ndjson> --out <obs.ndjson>`: each input record has `input` (symbols)
/// and optionally `pred`; the output record adds `len`, `bounds` and `obs`.
pub fn main(args: &[String]) {
    let recs = read_ndjson(req_arg(args, "--in"));
    let out: Vec<Value> = recs
        .par_iter()
        .map(|r| {
            let text = json_chunks_to_string(&r["input"]);
            let mut o = r.clone();
            o["len"] = json!(text.len());
            o["obs"] = observe(&text);
            o
        })
        .collect();
    write_ndjson(req_arg(args, "--out"), &out);
    println!("aisle: {} records", out.len());
}
