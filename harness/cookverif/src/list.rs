//! C10 recorder (recipes): group_ingredients, IngredientList over one and two recipes, categorize
//! with an aisle configuration whose synonyms collide with listed names.  Model converter.
use crate::group::{model_converter, totals};
use crate::prec::*;
use crate::project;
use crate::util::*;
use cooklang::ingredient_list::IngredientList;
use cooklang::quantity::{Quantity, Value as QValue};
use cooklang::{CooklangParser, Extensions, ScaledRecipe};
use rayon::prelude::*;
use serde_json::{json, Value};

// `b` and `salt` are synonyms of `a`: their quantities end up under the common name `a`
// common names that sort after AND before their synonyms (the list is walked in name order)
pub const AISLE: &str = "[one]\nb|a\nsalt|Salt\nolive oil|oil\n[two]\nA\nmissing\n";

fn q_json(q: &Option<Quantity<QValue>>) -> Value {
    match q {
        None => json!({"t": "none"}),
        Some(q) => {
            let unit = q.unit().map(project::s).unwrap_or_default();
            match q.value() {
                QValue::Number(n) => json!({"t": "num", "lo": (n.value() * 4.0).round() as i64, "hi": (n.value() * 4.0).round() as i64,
                                            "unit": unit, "txt": "", "exact": (n.value() * 4.0).fract() == 0.0}),
                QValue::Range { start, end } => json!({"t": "range", "lo": (start.value() * 4.0).round() as i64, "hi": (end.value() * 4.0).round() as i64,
                                                        "unit": unit, "txt": "", "exact": (start.value() * 4.0).fract() == 0.0 && (end.value() * 4.0).fract() == 0.0}),
                QValue::Text(t) => json!({"t": "text", "lo": 0, "hi": 0, "unit": unit, "txt": project::s(t), "exact": true}),
            }
        }
    }
}

fn list_json(l: &IngredientList, conv: &cooklang::Converter) -> Value {
    Value::Array(l.iter().map(|(name, g)| json!({"name": project::s(name), "totals": totals(g.iter(), conv)})).collect())
}

fn observe(text: &str, conv: &cooklang::Converter) -> Value {
    let parser = CooklangParser::new(Extensions::all(), conv.clone());
    let res = parser.parse(text);
    if !res.is_valid() {
        return json!({"st": "invalid"});
    }
    let recipe: ScaledRecipe = res.into_output().unwrap().default_scale();
    let igrs: Vec<Value> = recipe
        .ingredients
        .iter()
        .map(|i| {
            json!({"name": project::s(&i.name), "display": project::s(&i.display_name()), "listed": !i.modifiers().contains(cooklang::Modifiers::HIDDEN) && !i.modifiers().contains(cooklang::Modifiers::REF), // stated here, not asked of the library
                   "def": i.relation.is_definition(), "from": i.relation.referenced_from().iter().map(|x| x + 1).collect::<Vec<_>>(),
                   "q": q_json(&i.quantity)})
        })
        .collect();
    let grouped: Vec<Value> = recipe
        .group_ingredients(conv)
        .iter()
        .map(|g| json!({"index": g.index + 1, "totals": totals(g.quantity.iter(), conv)}))
        .collect();
    let list1 = IngredientList::from_recipe(&recipe, conv);
    let mut list2 = IngredientList::from_recipe(&recipe, conv);
    list2.add_recipe(&recipe, conv);
    let aisle = cooklang::aisle::parse(AISLE).unwrap();
    let info = aisle.ingredients_info();
    let mapping: Vec<Value> = info.iter().map(|(k, i)| json!({"name": k, "common": i.common_name, "category": i.category})).collect();
    let l1 = list_json(&list1, conv);
    let l2 = list_json(&list2, conv);
    let cat = list1.categorize(&aisle);
    let categorized: Vec<Value> = cat
        .iter()
        .flat_map(|(c, l)| l.iter().map(|(n, g)| json!({"category": c, "name": project::s(n), "totals": totals(g.iter(), conv)})).collect::<Vec<_>>())
        .collect();
    json!({"st": "ok", "igrs": igrs, "grouped": grouped, "list1": l1, "list2": l2, "categorized": categorized, "aisle": mapping})
}

/// `list --in docs.ndjson --out obs.ndjson`
pub fn main(args: &[String]) {
    let recs = read_ndjson(req_arg(args, "--in"));
    let conv = model_converter();
    let out: Vec<Value> = recs
        .par_iter()
        .map(|r| {
            let text = input_text(r);
            let o = match guarded(|| observe(&text, &conv)) {
                Ok(v) => v,
                Err(p) => json!({"st": "panic", "sig": panic_signature(&p)}),
            };
            let mut rec = json!({"text": text, "obs": o});
            if let Some(igr) = r.get("pred").and_then(|p| p.get("model")).and_then(|m| m.get("igr")) {
                rec["prel"] = Value::Array(igr.as_array().unwrap().iter().map(|i| i["rel"].clone()).collect());
            }
            rec
        })
        .collect();
    write_ndjson(req_arg(args, "--out"), &out);
    println!("list: {} recipes, {} valid", out.len(), out.iter().filter(|o| o["obs"]["st"] == "ok").count());
}
