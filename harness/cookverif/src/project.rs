//! The single projection recipe -> abstract model (the shape of CookAnalysis!ModelOf).
//! Indices become 1-based, options become "" / {"t":"none"}, strings are symbolised
//! (one symbol per character, see sym.rs), text items are whitespace-normalised.
use crate::sym::*;
use cooklang::model::*;
use cooklang::quantity::{Number, Quantity, ScalableValue, Value};
use serde_json::{json, Value as J};

pub fn s(x: &str) -> String {
    str_to_syms(x).concat()
}

fn opt(x: &Option<String>) -> String {
    x.as_deref().map(s).unwrap_or_default()
}

pub fn num_str(x: f64) -> String {
    if x.is_finite() && x.fract() == 0.0 && x.abs() < 1e15 {
        format!("{}", x as i64)
    } else {
        format!("{x}")
    }
}

pub fn number(n: &Number) -> J {
    match n {
        Number::Regular(x) => json!({"t": "num", "s": num_str(*x)}),
        Number::Fraction { whole, num, den, .. } => json!({"t": "frac", "w": whole, "n": num, "d": den}),
    }
}

pub fn value(v: &Value) -> J {
    match v {
        Value::Number(n) => number(n),
        Value::Range { start, end } => json!({"t": "range", "a": number(start), "b": number(end)}),
        Value::Text(t) => json!({"t": "text", "s": s(t)}),
    }
}

pub trait ProjValue {
    fn proj(&self) -> (J, bool);
}
impl ProjValue for ScalableValue {
    fn proj(&self) -> (J, bool) {
        match self {
            ScalableValue::Fixed(v) => (value(v), true),
            ScalableValue::Linear(v) => (value(v), false),
        }
    }
}
impl ProjValue for Value {
    fn proj(&self) -> (J, bool) {
        (value(self), true)
    }
}

fn quantity<V: cooklang::quantity::QuantityValue + ProjValue>(q: &Option<Quantity<V>>) -> J {
    match q {
        None => json!({"t": "none"}),
        Some(q) => {
            let (v, fixed) = q.value().proj();
            json!({"t": "q", "v": v, "unit": q.unit().map(s).unwrap_or_default(), "fixed": fixed})
        }
    }
}

pub fn mods(m: cooklang::Modifiers) -> Vec<&'static str> {
    let mut v = Vec::new();
    if m.contains(cooklang::Modifiers::HIDDEN) {
        v.push("hidden");
    }
    if m.contains(cooklang::Modifiers::NEW) {
        v.push("new");
    }
    if m.contains(cooklang::Modifiers::OPT) {
        v.push("opt");
    }
    if m.contains(cooklang::Modifiers::RECIPE) {
        v.push("recipe");
    }
    if m.contains(cooklang::Modifiers::REF) {
        v.push("ref");
    }
    v
}

fn def(from: &[usize], in_step: bool) -> J {
    json!({"t": "def", "from": from.iter().map(|i| i + 1).collect::<Vec<_>>(), "inStep": in_step, "to": 0, "target": ""})
}
fn refr(to: usize, target: &str) -> J {
    json!({"t": "ref", "from": [], "inStep": false, "to": to + 1, "target": target})
}

fn collapse(x: &str) -> String {
    let mut out = String::new();
    let mut prev_ws = false;
    for c in x.chars() {
        if c.is_whitespace() {
            if !prev_ws {
                out.push(' ');
            }
            prev_ws = true;
        } else {
            out.push(c);
            prev_ws = false;
        }
    }
    out
}

pub fn recipe<D, V: cooklang::quantity::QuantityValue + ProjValue>(r: &Recipe<D, V>) -> J {
    let igr: Vec<J> = r
        .ingredients
        .iter()
        .map(|i| {
            let rel = match i.relation.references_to() {
                Some((to, t)) => refr(
                    to,
                    match t {
                        IngredientReferenceTarget::Ingredient => "igr",
                        IngredientReferenceTarget::Step => "step",
                        IngredientReferenceTarget::Section => "section",
                    },
                ),
                None => def(i.relation.referenced_from(), i.relation.is_defined_in_step().unwrap_or(false)),
            };
            json!({"name": s(&i.name), "alias": opt(&i.alias), "q": quantity(&i.quantity), "note": opt(&i.note),
                   "mods": mods(i.modifiers()), "rel": rel})
        })
        .collect();
    let cw: Vec<J> = r
        .cookware
        .iter()
        .map(|c| {
            let rel = match &c.relation {
                ComponentRelation::Reference { references_to } => refr(*references_to, "cw"),
                ComponentRelation::Definition { referenced_from, defined_in_step } => def(referenced_from, *defined_in_step),
            };
            let q = match &c.quantity {
                None => json!({"t": "none"}),
                Some(v) => {
                    let (v, fixed) = v.proj();
                    json!({"t": "q", "v": v, "unit": "", "fixed": fixed})
                }
            };
            json!({"name": s(&c.name), "alias": opt(&c.alias), "q": q, "note": opt(&c.note), "mods": mods(c.modifiers()), "rel": rel})
        })
        .collect();
    let tm: Vec<J> = r.timers.iter().map(|t| json!({"name": opt(&t.name), "q": quantity(&t.quantity)})).collect();
    let inl: Vec<J> = r
        .inline_quantities
        .iter()
        .map(|q| {
            let n = match q.value() {
                Value::Number(n) => num_str(n.value()),
                other => other.to_string(),
            };
            json!({"n": n, "u": q.unit().map(s).unwrap_or_default()})
        })
        .collect();
    let secs: Vec<J> = r
        .sections
        .iter()
        .map(|sec| {
            let content: Vec<J> = sec
                .content
                .iter()
                .map(|c| match c {
                    Content::Text(t) => json!({"t": "text", "v": s(collapse(t).trim()), "items": [], "number": 0, "nraw": 0, "nempty": 0}),
                    Content::Step(st) => {
                        let n = st.items.len();
                        let mut items = Vec::new();
                        for (k, it) in st.items.iter().enumerate() {
                            match it {
                                Item::Text { value } => {
                                    let mut t = collapse(value);
                                    if k == 0 {
                                        t = t.trim_start().to_string();
                                    }
                                    if k + 1 == n {
                                        t = t.trim_end().to_string();
                                    }
                                    if !t.is_empty() || !value.chars().all(|c| c.is_whitespace()) || value.is_empty() {
                                        // an item that was blank only at the step's ends is spelling, an empty one is kept visible
                                        if !t.is_empty() || value.is_empty() {
                                            items.push(json!({"t": "text", "v": s(&t), "i": 0}));
                                        }
                                    }
                                }
                                Item::Ingredient { index } => items.push(json!({"t": "igr", "v": "", "i": index + 1})),
                                Item::Cookware { index } => items.push(json!({"t": "cw", "v": "", "i": index + 1})),
                                Item::Timer { index } => items.push(json!({"t": "tm", "v": "", "i": index + 1})),
                                Item::InlineQuantity { index } => items.push(json!({"t": "inl", "v": "", "i": index + 1})),
                            }
                        }
                        let nempty = st.items.iter().filter(|it| matches!(it, Item::Text { value } if value.is_empty())).count();
                        json!({"t": "step", "v": "", "items": items, "number": st.number,
                               "nraw": if n == 0 { 0 } else { items.len().max(1) }, "nempty": nempty})
                    }
                })
                .collect();
            json!({"name": opt(&sec.name), "content": content})
        })
        .collect();
    let meta: Vec<J> = r
        .metadata
        .map
        .iter()
        .map(|(k, v)| {
            let f = |y: &serde_yaml::Value| match y {
                serde_yaml::Value::String(x) => s(x),
                other => serde_json::to_string(other).unwrap_or_default(),
            };
            json!({"k": f(k), "v": f(v)})
        })
        .collect();
    json!({"igr": igr, "cw": cw, "tm": tm, "inl": inl, "secs": secs, "meta": meta})
}

/// message -> diagnostic class name of CookAnalysis / CookDoc
pub fn diag_class(msg: &str) -> &'static str {
    const TABLE: &[(&str, &str)] = &[
        ("The '>>' syntax for metadata is deprecated", "DeprecatedMetadata"),
        ("Reference not found", "RefNotFound"),
        ("Unsupported modifier combination with reference", "ConflictMods"),
        ("Redundant new", "RedundantNew"),
        ("Redundant reference", "RedundantRef"),
        ("Note not allowed in reference", "NoteOnRef"),
        ("Conflicting component reference quantities", "ConflictQty"),
        ("Text value may prevent calculating total amount", "TextValueRef"),
        ("Incompatible units prevent calculating total amount", "IncompatibleUnits"),
        ("Conflicting modifiers with intermediate preparation reference", "InterConflictMods"),
        ("Invalid intermediate preparation reference: number is 0", "InterZero"),
        ("Invalid intermediate preparation reference: relative reference to self", "InterZero"),
        ("Invalid intermediate preparation reference: value out of bounds", "InterOutOfBounds"),
        ("Invalid intermediate preparation reference", "InterSyntax"),
        ("Unnecessary scaling lock modifier", "UnnecessaryLock"),
        ("Timer value is text", "TimerTextValue"),
        ("Timer unit is not time", "TimerNotTime"),
        ("Unknown timer unit", "UnknownTimerUnit"),
        ("Invalid value for config key", "BadModeValue"),
        ("Unknown config metadata key", "UnknownConfigKey"),
        ("Unsupported value for key", "UnsupportedStdValue"),
        ("Ignoring text in define components mode", "IgnoredText"),
        ("Ignoring ingredient in text mode", "IgnoredComponentInTextMode"),
        ("Ignoring cookware in text mode", "IgnoredComponentInTextMode"),
        ("Ignoring timer in text mode", "IgnoredComponentInTextMode"),
        ("Time overridden", "TimeOverridden"),
        ("Time overriden", "TimeOverridden"),
        ("Invalid ingredient name: is empty", "EmptyName"),
        ("Invalid cookware name: is empty", "EmptyName"),
        ("Division by zero", "DivisionByZero"),
        ("Empty quantity value", "EmptyValue"),
        ("Empty quantity unit", "EmptyUnit"),
        ("Invalid cookware quantity: unit", "CookwareUnit"),
        ("Invalid timer quantity: missing unit", "TimerMissingUnit"),
        ("Invalid timer: missing quantity", "TimerMissingQuantity"),
        ("Invalid timer: neither quantity nor name", "TimerEmpty"),
        ("Duplicate modifier", "DuplicateModifier"),
        ("Invalid cookware modifiers: recipe modifier not allowed", "CookwareRecipeModifier"),
        ("Invalid timer: modifiers not allowed", "TimerModifiers"),
        ("Invalid cookware: intermediate preparation reference not allowed", "CookwareIntermediate"),
        ("Invalid timer: alias not allowed", "TimerAlias"),
        ("Invalid ingredient: multiple aliases", "MultipleAliases"),
        ("Invalid cookware: multiple aliases", "MultipleAliases"),
        ("Invalid ingredient: empty alias", "EmptyAlias"),
        ("Invalid cookware: empty alias", "EmptyAlias"),
        ("A timer cannot have a note", "TimerNote"),
        ("Invalid single word name", "InvalidSingleWord"),
        ("A metadata block is invalid", "InvalidMetadataBlock"),
        ("A section block is invalid", "InvalidSectionBlock"),
        ("Empty metadata key", "EmptyMetadataKey"),
        ("Empty metadata value", "EmptyMetadataValue"),
        ("Error parsing integer number", "IntegerOverflow"),
        ("Error parsing decimal number", "DecimalError"),
    ];
    for (p, c) in TABLE {
        if msg.starts_with(p) {
            return c;
        }
    }
    "Other"
}

pub fn diags(report: &cooklang::error::SourceReport) -> Vec<J> {
    report
        .iter()
        .map(|d| {
            let class = diag_class(&d.message);
            json!({
                "sev": if d.severity == cooklang::error::Severity::Error { "error" } else { "warning" },
                "stage": if d.stage == cooklang::error::Stage::Parse { "parse" } else { "analysis" },
                "class": class,
                "labels": d.labels.iter().map(|(s, _)| json!({"s": s.start(), "e": s.end()})).collect::<Vec<_>>(),
            })
        })
        .collect()
}

pub fn ext_bits_from_names(names: &J) -> u32 {
    let mut b = 0u32;
    if let Some(a) = names.as_array() {
        for n in a {
            b |= match n.as_str().unwrap_or("") {
                "MODIFIERS" => 1 << 1,
                "ALIAS" => 1 << 3,
                "ADVANCED_UNITS" => 1 << 5,
                "MODES" => 1 << 6,
                "INLINE" => 1 << 7,
                "RANGE" => 1 << 9,
                "TIMER_REQ" => 1 << 10,
                "INTERMEDIATE" => (1 << 11) | (1 << 1),
                other => panic!("unknown extension {other}"),
            };
        }
    }
    b
}
