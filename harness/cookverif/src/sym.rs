//! Symbol table shared with the TLA+ modules: one symbol = one character.
//! TLA+ sources stay ASCII; multi-byte characters travel as symbol names.

pub const TABLE: &[(&str, &str)] = &[
    ("LF", "\n"),
    ("CR", "\r"),
    ("TAB", "\t"),
    ("SP", " "),
    ("GAP", ""),
    ("NSP", " "),
    ("NBSP", "\u{a0}"),
    ("TSP", "\u{2009}"),
    ("E2", "\u{e9}"),
    ("U2", "\u{c9}"),
    ("L2", "\u{e9}"),
    ("W2", "\u{a0}"),
    ("W3", "\u{2009}"),
    ("P3", "\u{2014}"),
    ("E4", "\u{1f600}"),
    ("DEG", "\u{ba}"),
    ("BS", "\\"),
    ("QUOTE", "\""),
];

/// Symbol (or literal chunk) -> text
pub fn chunk_to_str(chunk: &str) -> &str {
    for (k, v) in TABLE {
        if *k == chunk {
            return v;
        }
    }
    chunk
}

pub fn chunks_to_string<'a>(chunks: impl IntoIterator<Item = &'a str>) -> String {
    let mut s = String::new();
    for c in chunks {
        s.push_str(chunk_to_str(c));
    }
    s
}

pub fn json_chunks_to_string(v: &serde_json::Value) -> String {
    match v {
        serde_json::Value::Array(a) => {
            chunks_to_string(a.iter().map(|x| x.as_str().expect("chunk must be a string")))
        }
        serde_json::Value::String(s) => s.clone(),
        _ => panic!("bad chunk list {v}"),
    }
}

/// One character -> symbol name (inverse of the table for single characters)
pub fn char_to_sym(c: char) -> String {
    match c {
        '\n' => "LF".into(),
        '\r' => "CR".into(),
        '\t' => "TAB".into(),
        '\u{a0}' => "NBSP".into(),
        '\u{2009}' => "TSP".into(),
        '\u{e9}' => "E2".into(),
        '\u{c9}' => "U2".into(),
        '\u{2014}' => "P3".into(),
        '\u{1f600}' => "E4".into(),
        '\u{ba}' => "DEG".into(),
        '\\' => "BS".into(),
        '"' => "QUOTE".into(),
        c if (c as u32) < 0x20 || c == '\u{7f}' => format!("U{:04X}", c as u32),
        c => c.to_string(),
    }
}

pub fn str_to_syms(s: &str) -> Vec<String> {
    s.chars().map(char_to_sym).collect()
}

/// Start-up self check of the table against `char` facts the specs rely on.
pub fn self_check() {
    assert_eq!("\u{a0}".len(), 2);
    assert_eq!("\u{2009}".len(), 3);
    assert_eq!("\u{e9}".len(), 2);
    assert_eq!("\u{2014}".len(), 3);
    assert_eq!("\u{1f600}".len(), 4);
    assert!('\u{a0}'.is_whitespace() && !'\u{a0}'.is_ascii_whitespace());
    assert!('\u{2009}'.is_whitespace());
    assert!('\u{e9}'.is_alphabetic());
    for (k, v) in TABLE {
        if v.chars().count() == 1 && !matches!(*k, "SP" | "NSP" | "L2" | "W2" | "W3" | "GAP") {
            assert_eq!(&char_to_sym(v.chars().next().unwrap()), k, "symbol table not invertible at {k}");
        }
    }
}
