//! C14 recorder: CooklangParser::parse(..).metadata vs CooklangParser::parse_metadata(..)
use crate::prec::*;
use crate::project;
use crate::util::*;
use cooklang::CooklangParser;
use rayon::prelude::*;
use serde_json::{json, Value};

fn map_json(m: &cooklang::Metadata) -> Value {
    Value::Array(
        m.map
            .iter()
            .map(|(k, v)| {
                let f = |y: &serde_yaml::Value| match y {
                    serde_yaml::Value::String(x) => project::s(x),
                    other => serde_json::to_string(other).unwrap_or_default(),
                };
                json!({"k": f(k), "v": f(v)})
            })
            .collect(),
    )
}

pub fn observe(text: &str, bits: u32, conv: &str) -> Value {
    let parser = CooklangParser::new(ext_from_bits(bits), converter(conv));
    let full = match guarded(|| parser.parse(text)) {
        Err(p) => json!({"st": "panic", "out": false, "map": [], "sig": panic_signature(&p)}),
        Ok(r) => match r.output() {
            Some(o) => json!({"st": "ok", "out": true, "map": map_json(&o.metadata), "valid": r.is_valid()}),
            None => json!({"st": "ok", "out": false, "map": [], "valid": false}),
        },
    };
    let only = match guarded(|| parser.parse_metadata(text)) {
        Err(p) => json!({"st": "panic", "out": false, "map": [], "sig": panic_signature(&p)}),
        Ok(r) => match r.output() {
            Some(o) => json!({"st": "ok", "out": true, "map": map_json(o), "valid": r.is_valid()}),
            None => json!({"st": "ok", "out": false, "map": [], "valid": false}),
        },
    };
    json!({"full": full, "only": only})
}

/// `meta --in f --out f [--ext none,all,..]`: every input under every listed ext set (or its own `ext`)
pub fn main(args: &[String]) {
    let recs = read_ndjson(req_arg(args, "--in"));
    let exts = arg(args, "--ext").map(parse_ext_list);
    let out: Vec<Value> = recs
        .par_iter()
        .flat_map_iter(|r| {
            let text = input_text(r);
            let list: Vec<u32> = match (&exts, r.get("ext")) {
                (_, Some(e)) if e.is_array() => vec![project::ext_bits_from_names(e)],
                (Some(l), _) => l.clone(),
                _ => vec![0],
            };
            list.into_iter()
                .map(|bits| {
                    let mut o = observe(&text, bits, r.get("conv").and_then(|c| c.as_str()).unwrap_or("bundled"));
                    o["text"] = json!(text);
                    o["extbits"] = json!(bits);
                    if let Some(m) = r.get("map") {
                        o["pred"] = m.clone();
                    }
                    o
                })
                .collect::<Vec<_>>()
        })
        .collect();
    write_ndjson(req_arg(args, "--out"), &out);
    println!("meta: {} records from {} inputs", out.len(), recs.len());
}
