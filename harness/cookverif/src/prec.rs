//! Recorders around the parser: token stream (hook), raw events with every nested span,
//! diagnostics labels, report rendering, entry-point calls.  No judgement here.
use crate::sym::*;
use crate::util::*;
use cooklang::error::SourceReport;
use cooklang::parser::{Event, PullParser};
use cooklang::{Converter, CooklangParser, Extensions, Span};
use rayon::prelude::*;
use serde_json::{json, Value};

pub fn ext_from_bits(bits: u32) -> Extensions {
    Extensions::from_bits_truncate(bits)
}

/// The 8 flags; INTERMEDIATE implies MODIFIERS, so there are 192 distinct closed subsets.
pub const FLAGS: [u32; 8] = [1 << 1, 1 << 3, 1 << 5, 1 << 6, 1 << 7, 1 << 9, 1 << 10, (1 << 11) | (1 << 1)];

pub fn all_subsets() -> Vec<u32> {
    let mut v = std::collections::BTreeSet::new();
    for m in 0..256u32 {
        let mut b = 0;
        for (i, f) in FLAGS.iter().enumerate() {
            if m & (1 << i) != 0 {
                b |= f;
            }
        }
        v.insert(b);
    }
    v.into_iter().collect()
}

/// a converter at the edges of what a units file may say: fractions everywhere with the widest limits, ratios of 1e300
/// and 1e-300 next to ordinary ones, a one-unit best list, a unit with an offset, names with blanks and capitals
pub const EXTREME_UNITS: &str = r#"
default_system = "imperial"
[fractions]
all = { enabled = true, accuracy = 1.0, max_denominator = 16, max_whole = 4000000000 }
[fractions.unit]
tsp = { max_whole = 0, max_denominator = 1 }
g = { accuracy = 0.0 }
[[quantity]]
quantity = "volume"
best = { metric = ["ml", "l"], imperial = ["tsp", "cup"] }
[quantity.units]
metric = [ { names = ["millilitre"], symbols = ["ml"], ratio = 1 }, { names = ["litre"], symbols = ["l", "L"], ratio = 1000 }, { names = ["big vat"], symbols = ["vat"], ratio = 1e300 } ]
imperial = [ { names = ["teaspoon"], symbols = ["tsp"], ratio = 4.928921 }, { names = ["cup", "cups"], symbols = ["c"], ratio = 236.588236 }, { names = ["drop"], symbols = ["dr"], ratio = 1e-300 } ]
[[quantity]]
quantity = "mass"
best = { metric = ["g"], imperial = ["oz", "lb"] }
[quantity.units]
metric = [ { names = ["gram", "grams"], symbols = ["g"], ratio = 1 }, { names = ["kilogram"], symbols = ["kg"], ratio = 1000 } ]
imperial = [ { names = ["ounce"], symbols = ["oz"], ratio = 28.349523125 }, { names = ["pound"], symbols = ["lb"], ratio = 453.59237 } ]
[[quantity]]
quantity = "length"
best = { metric = ["cm"], imperial = ["in"] }
[quantity.units]
metric = [ { names = ["centimetre"], symbols = ["cm"], ratio = 1 } ]
imperial = [ { names = ["inch"], symbols = ["in"], ratio = 2.54 } ]
[[quantity]]
quantity = "temperature"
best = { metric = ["C"], imperial = ["F"] }
[quantity.units]
metric = [ { names = ["celsius"], symbols = ["°C", "ºC", "C"], ratio = 1, difference = 273.15 } ]
imperial = [ { names = ["fahrenheit"], symbols = ["°F", "ºF", "F"], ratio = 0.5555555555555556, difference = 459.67 } ]
[[quantity]]
quantity = "time"
best = ["s", "min", "h", "d"]
units = [ { names = ["second", "seconds"], symbols = ["s"], ratio = 1 }, { names = ["minute", "minutes"], symbols = ["min", "m"], ratio = 60 }, { names = ["hour", "hours"], symbols = ["h"], ratio = 3600 }, { names = ["day", "days"], symbols = ["d"], ratio = 86400 }, { names = ["aeon"], symbols = ["ae"], ratio = 1e300 } ]
"#;

pub fn extreme_converter() -> Converter {
    static C: std::sync::OnceLock<Converter> = std::sync::OnceLock::new();
    C.get_or_init(|| {
        let f: cooklang::convert::units_file::UnitsFile = toml::from_str(EXTREME_UNITS).expect("extreme units");
        Converter::builder().with_units_file(f).expect("add").finish().expect("extreme converter")
    })
    .clone()
}

pub fn converter(name: &str) -> Converter {
    match name {
        "e" | "empty" => Converter::empty(),
        "x" | "extreme" => extreme_converter(),
        _ => Converter::bundled(),
    }
}

fn sp(s: Span) -> Value {
    json!({"s": s.start(), "e": s.end()})
}

struct Collect<'a> {
    input: &'a str,
    spans: Vec<Value>,
    frags: Vec<Value>,
    labels: Vec<Value>,
}

impl Collect<'_> {
    fn span(&mut self, s: Span) {
        self.spans.push(sp(s));
    }
    fn text(&mut self, t: &cooklang::Text) {
        self.span(t.span());
        for f in t.fragments() {
            let s = f.start();
            let e = f.end();
            // `same`: does the fragment text equal the input slice at its span (false if the
            // slice cannot even be taken); the slice itself is re-derived by the judge
            let same = self.input.get(s..e).map(|x| x == f.text());
            self.frags.push(json!({"s": s, "e": e, "t": str_to_syms(f.text()),
                                   "same": same.unwrap_or(false), "sliceable": same.is_some()}));
        }
    }
    fn diag(&mut self, d: &cooklang::error::SourceDiag) {
        for (s, _) in &d.labels {
            self.labels.push(sp(*s));
        }
    }
    fn quantity(&mut self, q: &cooklang::Located<cooklang::parser::Quantity>) {
        self.span(q.span());
        self.qvalue(&q.value);
        if let Some(u) = &q.unit {
            self.text(u);
        }
    }
    fn qvalue(&mut self, v: &cooklang::parser::QuantityValue) {
        self.span(v.value.span());
        self.span(v.span());
        if let Some(l) = v.scaling_lock {
            self.span(l);
        }
    }
}

pub fn event_kind(ev: &Event) -> &'static str {
    use cooklang::parser::BlockKind;
    match ev {
        Event::YAMLFrontMatter(_) => "FrontMatter",
        Event::Metadata { .. } => "Metadata",
        Event::Section { .. } => "Section",
        Event::Start(BlockKind::Step) => "StartStep",
        Event::Start(BlockKind::Text) => "StartText",
        Event::End(BlockKind::Step) => "EndStep",
        Event::End(BlockKind::Text) => "EndText",
        Event::Text(_) => "Text",
        Event::Ingredient(_) => "Ingredient",
        Event::Cookware(_) => "Cookware",
        Event::Timer(_) => "Timer",
        Event::Error(_) => "Error",
        Event::Warning(_) => "Warning",
    }
}

/// Raw event stream of `text` with all spans. Returns Err(panic message) if the parser panicked.
pub fn record_events(text: &str, ext: Extensions) -> Result<Value, String> {
    guarded(|| {
        let mut c = Collect { input: text, spans: vec![], frags: vec![], labels: vec![] };
        let mut evs = Vec::new();
        let mut kinds = Vec::new();
        let mut has_err = false;
        for ev in PullParser::new(text, ext) {
            kinds.push(json!(event_kind(&ev)));
            let top: Option<Span> = match &ev {
                Event::YAMLFrontMatter(t) => {
                    c.text(t);
                    Some(t.span())
                }
                Event::Metadata { key, value } => {
                    c.text(key);
                    c.text(value);
                    Some(Span::from(key.span().start().min(value.span().start())..value.span().end().max(key.span().end())))
                }
                Event::Section { name } => name.as_ref().map(|n| {
                    c.text(n);
                    n.span()
                }),
                Event::Start(_) | Event::End(_) => None,
                Event::Text(t) => {
                    c.text(t);
                    Some(t.span())
                }
                Event::Ingredient(i) => {
                    c.span(i.modifiers.span());
                    if let Some(d) = &i.intermediate_data {
                        c.span(d.span());
                    }
                    c.text(&i.name);
                    if let Some(a) = &i.alias {
                        c.text(a);
                    }
                    if let Some(q) = &i.quantity {
                        c.quantity(q);
                    }
                    if let Some(n) = &i.note {
                        c.text(n);
                    }
                    Some(i.span())
                }
                Event::Cookware(i) => {
                    c.span(i.modifiers.span());
                    c.text(&i.name);
                    if let Some(a) = &i.alias {
                        c.text(a);
                    }
                    if let Some(q) = &i.quantity {
                        c.span(q.span());
                        c.qvalue(q);
                    }
                    if let Some(n) = &i.note {
                        c.text(n);
                    }
                    Some(i.span())
                }
                Event::Timer(t) => {
                    if let Some(n) = &t.name {
                        c.text(n);
                    }
                    if let Some(q) = &t.quantity {
                        c.quantity(q);
                    }
                    Some(t.span())
                }
                Event::Error(d) => {
                    has_err = true;
                    c.diag(d);
                    None
                }
                Event::Warning(d) => {
                    c.diag(d);
                    None
                }
            };
            if let Some(s) = top {
                evs.push(json!({"k": event_kind(&ev), "s": s.start(), "e": s.end()}));
            }
        }
        json!({"evs": evs, "evk": kinds, "spans": c.spans, "frags": c.frags, "labels": c.labels, "haserr": has_err})
    })
}

fn report_labels(report: &SourceReport, out: &mut Vec<Value>) {
    for d in report.iter() {
        for (s, _) in &d.labels {
            out.push(sp(*s));
        }
    }
}

fn write_report(report: &SourceReport, text: &str) -> &'static str {
    for color in [false, true] {
        let mut buf = Vec::new();
        match guarded(|| report.write("input.cook", text, color, &mut buf)) {
            Ok(Ok(())) => {}
            Ok(Err(_)) => return "io_error",
            Err(_) => return "panic",
        }
    }
    "ok"
}

/// C04/C05 record for one input and one extension set
pub fn spans_record(text: &str, ext_bits: u32, conv: &Converter, extra: &Value) -> Value {
    let ext = ext_from_bits(ext_bits);
    let chars: Vec<char> = text.chars().collect();
    let mut o = json!({
        "input": str_to_syms(text),
        "offs": boundaries(text),
        "len": text.len(),
        "ext": ext_bits,
        "alnum": chars.iter().enumerate().filter(|(_, c)| c.is_alphanumeric()).map(|(i, _)| i + 1).collect::<Vec<_>>(),
    });
    if let Some(m) = extra.as_object() {
        for (k, v) in m {
            if k != "input" && k != "text" {
                o[k] = v.clone();
            }
        }
    }
    match guarded(|| cooklang::parser::verif_tokens(text)) {
        Ok(t) => {
            o["toks"] = Value::Array(t.iter().map(|(k, s, e)| json!({"k": k, "s": s, "e": e})).collect());
            o["lexed"] = json!(true);
        }
        Err(_) => {
            o["toks"] = json!([]);
            o["lexed"] = json!(false);
        }
    }
    match record_events(text, ext) {
        Ok(v) => {
            for (k, val) in v.as_object().unwrap() {
                o[k] = val.clone();
            }
            o["parsed"] = json!(true);
        }
        Err(p) => {
            o["parsed"] = json!(false);
            o["panic"] = json!(panic_signature(&p));
            for k in ["evs", "evk", "spans", "frags", "labels"] {
                o[k] = json!([]);
            }
            o["haserr"] = json!(false);
        }
    }
    // full parse: analysis diagnostics + report rendering
    let parser = CooklangParser::new(ext, conv.clone());
    match guarded(|| parser.parse(text)) {
        Ok(res) => {
            let mut labels = Vec::new();
            report_labels(res.report(), &mut labels);
            o["rlabels"] = Value::Array(labels);
            o["write"] = json!(write_report(res.report(), text));
            o["analysed"] = json!(true);
        }
        Err(_) => {
            o["rlabels"] = json!([]);
            o["write"] = json!("skipped");
            o["analysed"] = json!(false);
        }
    }
    o
}

pub fn input_text(r: &Value) -> String {
    match r.get("text") {
        Some(Value::String(t)) => t.clone(),
        Some(t @ Value::Array(_)) => json_chunks_to_string(t),
        _ => json_chunks_to_string(&r["input"]),
    }
}

pub fn parse_ext_list(s: &str) -> Vec<u32> {
    s.split(',')
        .map(|x| match x {
            "all" => Extensions::all().bits(),
            "none" => 0,
            "compat" => Extensions::COMPAT.bits(),
            n => n.parse().expect("ext bits"),
        })
        .collect()
}

/// `spans --in f --out f [--ext none,all] [--conv b]`
pub fn main_spans(args: &[String]) {
    let recs = read_ndjson(req_arg(args, "--in"));
    let exts = parse_ext_list(arg(args, "--ext").unwrap_or("none,all"));
    let conv = converter(arg(args, "--conv").unwrap_or("b"));
    let out: Vec<Value> = recs
        .par_iter()
        .flat_map_iter(|r| {
            let text = input_text(r);
            exts.iter().map(|e| spans_record(&text, *e, &conv, r)).collect::<Vec<_>>()
        })
        .collect();
    write_ndjson(req_arg(args, "--out"), &out);
    println!("spans: {} records from {} inputs", out.len(), recs.len());
}
