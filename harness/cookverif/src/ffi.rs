//! C19 recorder: (1) combine_ingredients(_selected) on the lists printed by MC_Combine,
//! (2) the simplified recipe of the bindings next to the core recipe for generated documents.
use crate::prec::*;
use crate::project::{num_str, s};
use crate::util::*;
use cooklang::CooklangParser;
use ffi_shim::model as fm;
use rayon::prelude::*;
use serde_json::{json, Value};

fn amount_from_json(a: &Value, div: f64) -> Option<fm::Amount> {
    let unit = a["unit"].as_str().filter(|u| !u.is_empty()).map(|u| u.to_string());
    let q = match a["t"].as_str().unwrap() {
        "number" => fm::Value::Number { value: a["lo"].as_f64().unwrap() / 4.0 / div },
        "range" => fm::Value::Range { start: a["lo"].as_f64().unwrap() / 4.0 / div, end: a["hi"].as_f64().unwrap() / 4.0 / div },
        "text" => fm::Value::Text { value: a["txt"].as_str().unwrap().to_string() },
        _ => return None,
    };
    Some(fm::Amount::verif_new(q, unit))
}

/// quarter units, or -1 when the amount is not (within 1e-9) a whole number of them
fn quarters(v: f64, div: f64) -> i64 {
    let q = v * 4.0 * div;
    if (q - q.round()).abs() <= 1e-9 * q.abs().max(1.0) { q.round() as i64 } else { -1 }
}

fn combine_with(r: &Value, div: f64) -> Value {
    let list: Vec<fm::Ingredient> = r["list"]
        .as_array()
        .unwrap()
        .iter()
        .map(|i| fm::Ingredient { name: i["name"].as_str().unwrap().to_string(), amount: amount_from_json(&i["amount"], div), descriptor: None })
        .collect();
    let sel: Vec<u32> = r["sel"].as_array().unwrap().iter().map(|k| k.as_u64().unwrap() as u32 - 1).collect();
    let view = |m: &fm::IngredientList| -> (Vec<Value>, Vec<Value>) {
        let mut nums = Vec::new();
        let mut keys = Vec::new();
        for (name, g) in m {
            for (k, v) in g {
                let ty = match k.unit_type {
                    fm::QuantityType::Number => "number",
                    fm::QuantityType::Range => "range",
                    fm::QuantityType::Text => "text",
                    fm::QuantityType::Empty => "empty",
                };
                keys.push(json!({"name": name, "unit": k.name, "type": ty}));
                match v {
                    fm::Value::Number { value } => nums.push(json!({"name": name, "unit": k.name, "type": ty, "lo": quarters(*value, div), "hi": quarters(*value, div)})),
                    fm::Value::Range { start, end } => nums.push(json!({"name": name, "unit": k.name, "type": ty, "lo": quarters(*start, div), "hi": quarters(*end, div)})),
                    _ => {}
                }
            }
        }
        (nums, keys)
    };
    guarded(|| {
        let selected = ffi_shim::combine_ingredients_selected(&list, &sel);
        let sub: Vec<fm::Ingredient> = sel.iter().map(|k| list[*k as usize].clone()).collect();
        let whole = ffi_shim::combine_ingredients(&sub);
        let (nums, keys) = view(&selected);
        let (nums2, keys2) = view(&whole);
        json!({"st": "ok", "selected": nums, "keys": keys, "sublist": nums2, "sublist_keys": keys2})
    })
    .unwrap_or_else(|p| json!({"st": "panic", "sig": panic_signature(&p)}))
}

fn combine_case(r: &Value) -> Value {
    let mut obs = combine_with(r, 1.0);
    // the same list with every amount divided by 3 (and by 7000): sums that no decimal rounding leaves intact
    let thirds = combine_with(r, 3.0);
    let small = combine_with(r, 7000.0);
    obs["selected_thirds"] = thirds.get("selected").cloned().unwrap_or(json!([]));
    obs["selected_small"] = small.get("selected").cloned().unwrap_or(json!([]));
    if thirds["st"] != "ok" || small["st"] != "ok" {
        obs["st"] = json!("panic");
    }
    let mut o = r.clone();
    o["kind_rec"] = json!("combine");
    o["obs"] = obs;
    o
}

fn core_value(v: &cooklang::quantity::Value) -> Value {
    use cooklang::quantity::Value as V;
    match v {
        V::Number(n) => json!({"t": "number", "a": num_str(n.value()), "b": ""}),
        V::Range { start, end } => json!({"t": "range", "a": num_str(start.value()), "b": num_str(end.value())}),
        V::Text(t) => json!({"t": "text", "a": s(t), "b": ""}),
    }
}
fn ffi_value(v: &fm::Value) -> Value {
    match v {
        fm::Value::Number { value } => json!({"t": "number", "a": num_str(*value), "b": ""}),
        fm::Value::Range { start, end } => json!({"t": "range", "a": num_str(*start), "b": num_str(*end)}),
        fm::Value::Text { value } => json!({"t": "text", "a": s(value), "b": ""}),
        fm::Value::Empty => json!({"t": "empty", "a": "", "b": ""}),
    }
}
fn ffi_amount(a: &Option<fm::Amount>) -> Value {
    match a {
        None => json!({"t": "none", "a": "", "b": "", "unit": ""}),
        Some(a) => {
            let (q, u) = a.verif_parts();
            let mut v = ffi_value(q);
            v["unit"] = json!(u.map(s).unwrap_or_default());
            v
        }
    }
}
fn core_amount(v: Option<(&cooklang::quantity::Value, Option<&str>)>) -> Value {
    match v {
        None => json!({"t": "none", "a": "", "b": "", "unit": ""}),
        Some((val, u)) => {
            let mut x = core_value(val);
            x["unit"] = json!(u.map(s).unwrap_or_default());
            x
        }
    }
}

fn mirror_case(r: &Value, factor: f64) -> Value {
    let text = input_text(r);
    let parser = CooklangParser::canonical();
    let res = parser.parse(&text);
    if !res.is_valid() {
        return json!({"kind_rec": "mirror", "text": text, "factor": factor.to_string(), "obs": {"st": "invalid"}});
    }
    let core = res.into_output().unwrap().scale(factor, parser.converter());
    let core_view = json!({
        "sections": core.sections.iter().map(|sec| json!({
            "title": sec.name.as_deref().map(s).unwrap_or_default(),
            "blocks": sec.content.iter().map(|c| match c {
                cooklang::Content::Text(t) => json!({"k": "note", "text": s(t), "items": []}),
                cooklang::Content::Step(st) => json!({"k": "step", "text": "", "items": st.items.iter().map(|it| match it {
                    cooklang::Item::Text { value } => json!({"t": "text", "v": s(value), "i": 0}),
                    cooklang::Item::Ingredient { index } => json!({"t": "igr", "v": "", "i": index + 1}),
                    cooklang::Item::Cookware { index } => json!({"t": "cw", "v": "", "i": index + 1}),
                    cooklang::Item::Timer { index } => json!({"t": "tm", "v": "", "i": index + 1}),
                    cooklang::Item::InlineQuantity { .. } => json!({"t": "text", "v": "", "i": 0}),
                }).collect::<Vec<_>>()}),
            }).collect::<Vec<_>>(),
        })).collect::<Vec<_>>(),
        "ingredients": core.ingredients.iter().map(|i| json!({"name": s(&i.name), "amount": core_amount(i.quantity.as_ref().map(|q| (q.value(), q.unit()))),
                                                              "descriptor": i.note.as_deref().map(s).unwrap_or_default()})).collect::<Vec<_>>(),
        "cookware": core.cookware.iter().map(|c| json!({"name": s(&c.name), "amount": core_amount(c.quantity.as_ref().map(|q| (q, None)))})).collect::<Vec<_>>(),
        // a missing timer name and an empty one are identified
        "timers": core.timers.iter().map(|t| json!({"name": t.name.as_deref().map(s).unwrap_or_default(),
                                                    "amount": core_amount(t.quantity.as_ref().map(|q| (q.value(), q.unit())))})).collect::<Vec<_>>(),
    });
    let obs = guarded(|| {
        let simple = ffi_shim::parse_recipe(text.clone(), factor);
        let mut deref_ok = true;
        let item_view = |it: &fm::Item| match it {
            fm::Item::Text { value } => json!({"t": "text", "v": s(value), "i": 0}),
            fm::Item::IngredientRef { index } => json!({"t": "igr", "v": "", "i": index + 1}),
            fm::Item::CookwareRef { index } => json!({"t": "cw", "v": "", "i": index + 1}),
            fm::Item::TimerRef { index } => json!({"t": "tm", "v": "", "i": index + 1}),
        };
        let mut sections = Vec::new();
        for sec in &simple.sections {
            let mut blocks = Vec::new();
            for b in &sec.blocks {
                match b {
                    fm::Block::NoteBlock(n) => blocks.push(json!({"k": "note", "text": s(&n.text), "items": [], "igr": [], "cw": [], "tm": []})),
                    fm::Block::StepBlock(st) => {
                        for it in &st.items {
                            let comp = guarded(|| ffi_shim::deref_component(&simple, it.clone()));
                            let want = match it {
                                fm::Item::IngredientRef { index } => simple.ingredients.get(*index as usize).cloned().map(fm::Component::IngredientComponent),
                                fm::Item::CookwareRef { index } => simple.cookware.get(*index as usize).cloned().map(fm::Component::CookwareComponent),
                                fm::Item::TimerRef { index } => simple.timers.get(*index as usize).cloned().map(fm::Component::TimerComponent),
                                fm::Item::Text { value } => Some(fm::Component::TextComponent(value.clone())),
                            };
                            if comp.ok() != want {
                                deref_ok = false;
                            }
                        }
                        blocks.push(json!({"k": "step", "text": "", "items": st.items.iter().map(item_view).collect::<Vec<_>>(),
                                           "igr": st.ingredient_refs.iter().map(|x| x + 1).collect::<Vec<_>>(),
                                           "cw": st.cookware_refs.iter().map(|x| x + 1).collect::<Vec<_>>(),
                                           "tm": st.timer_refs.iter().map(|x| x + 1).collect::<Vec<_>>()}));
                    }
                }
            }
            sections.push(json!({"title": sec.title.as_deref().map(s).unwrap_or_default(), "blocks": blocks,
                                 "igr": sec.ingredient_refs.iter().map(|x| x + 1).collect::<Vec<_>>(),
                                 "cw": sec.cookware_refs.iter().map(|x| x + 1).collect::<Vec<_>>(),
                                 "tm": sec.timer_refs.iter().map(|x| x + 1).collect::<Vec<_>>()}));
        }
        json!({"st": "ok", "deref_ok": deref_ok, "sections": sections,
               "ingredients": simple.ingredients.iter().map(|i| json!({"name": s(&i.name), "amount": ffi_amount(&i.amount),
                                                                       "descriptor": i.descriptor.as_deref().map(s).unwrap_or_default()})).collect::<Vec<_>>(),
               "cookware": simple.cookware.iter().map(|c| json!({"name": s(&c.name), "amount": ffi_amount(&c.amount)})).collect::<Vec<_>>(),
               "timers": simple.timers.iter().map(|t| json!({"name": t.name.as_deref().map(s).unwrap_or_default(), "amount": ffi_amount(&t.amount)})).collect::<Vec<_>>()})
    })
    .unwrap_or_else(|p| json!({"st": "panic", "sig": panic_signature(&p)}));
    json!({"kind_rec": "mirror", "text": text, "factor": factor.to_string(), "core": core_view, "obs": obs})
}

/// `ffi --combine cases.ndjson --docs docs.ndjson --out obs.ndjson`
pub fn main(args: &[String]) {
    let mut out: Vec<Value> = read_ndjson(req_arg(args, "--combine")).par_iter().map(combine_case).collect();
    let docs = read_ndjson(req_arg(args, "--docs"));
    let mirrors: Vec<Value> = docs.par_iter().flat_map_iter(|r| [1.0, 0.5, 3.0, 1.005, 0.999, 1.0 + 1e-9].iter().map(|f| mirror_case(r, *f)).collect::<Vec<_>>()).collect();
    out.extend(mirrors);
    write_ndjson(req_arg(args, "--out"), &out);
    println!("ffi: {} records", out.len());
}
