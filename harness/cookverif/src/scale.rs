//! C08 recorder: scale / default_scale / scale_to_servings of generated recipes.
use crate::docs::observe;
use crate::prec::*;
use crate::project;
use crate::util::*;
use cooklang::quantity::{Quantity, ScalableValue, Value as QValue};
use cooklang::scale::ScaleOutcome;
use cooklang::{Converter, CooklangParser};
use rayon::prelude::*;
use serde_json::{json, Value};

fn ends(v: &QValue) -> Option<(f64, f64)> {
    match v {
        QValue::Number(n) => Some((n.value(), n.value())),
        QValue::Range { start, end } => Some((start.value(), end.value())),
        QValue::Text(_) => None,
    }
}
/// the standard definitions the specification carries (CookConvert!StdDefs, printed by MC_Convert): symbol -> ratio to the base unit
static STD: std::sync::OnceLock<std::collections::HashMap<String, f64>> = std::sync::OnceLock::new();

fn std_ratio(symbol: &str) -> Option<f64> {
    let key = if symbol == "fl oz" { "floz" } else { symbol };
    STD.get().and_then(|m| m.get(key).copied())
}

/// multiplicative amount of a quantity: value x unit ratio for a known unit, the bare value otherwise; with the
/// library's ratio and, when the specification has a standard definition for the unit's symbol, with that one too
fn amount(v: &QValue, unit: Option<&str>, conv: &Converter) -> Option<(f64, f64, String, Option<(f64, f64)>)> {
    let (lo, hi) = ends(v)?;
    match unit.and_then(|u| conv.find_unit(u)) {
        Some(u) => {
            let std = if u.difference == 0.0 { std_ratio(u.symbol()).map(|r| (lo * r, hi * r)) } else { None };
            Some((lo * u.ratio, hi * u.ratio, u.physical_quantity.to_string(), std))
        }
        None => Some((lo, hi, format!("raw:{}", unit.unwrap_or("")), None)),
    }
}
fn unscaled(v: &ScalableValue) -> &QValue {
    match v {
        ScalableValue::Fixed(v) | ScalableValue::Linear(v) => v,
    }
}
fn outcome_name(o: &ScaleOutcome) -> &'static str {
    match o {
        ScaleOutcome::Scaled => "scaled",
        ScaleOutcome::Fixed => "fixed",
        ScaleOutcome::NoQuantity => "noQuantity",
        ScaleOutcome::Error(_) => "error",
        // a variant added to the library later: the class of an error is only compared as drift
        #[allow(unreachable_patterns)]
        _ => "other",
    }
}
fn rel_close(a: f64, b: f64) -> bool {
    (a - b).abs() <= 1e-9 * b.abs().max(1e-12)
}
/// compares one component before / after
fn component(before: Option<(&QValue, Option<&str>)>, after: Option<(&QValue, Option<&str>)>, outcome: &ScaleOutcome, f: f64, conv: &Converter) -> Value {
    let (mult_f, same) = match (before, after) {
        (None, None) => (false, true),
        (Some((bv, bu)), Some((av, au))) => match (amount(bv, bu, conv), amount(av, au, conv)) {
            (Some((blo, bhi, bq, bstd)), Some((alo, ahi, aq, astd))) => {
                let class_ok = bq == aq;
                // measured with the specification's standard definitions when both units have one (so that a wrong ratio
                // inside the library cannot cancel out; the tables agree to 1e-6), with the library's ratios otherwise
                match (bstd, astd) {
                    (Some((sblo, sbhi)), Some((salo, sahi))) => {
                        let close = |a: f64, b: f64| (a - b).abs() <= 1e-6 * b.abs().max(1e-12);
                        (class_ok && close(salo, sblo * f) && close(sahi, sbhi * f), class_ok && close(salo, sblo) && close(sahi, sbhi))
                    }
                    _ => (class_ok && rel_close(alo, blo * f) && rel_close(ahi, bhi * f), class_ok && rel_close(alo, blo) && rel_close(ahi, bhi)),
                }
            }
            (None, None) => (false, bv == av && bu == au), // text values: verbatim
            _ => (false, false),
        },
        _ => (false, false),
    };
    json!({"outcome": outcome_name(outcome), "mult_f": mult_f, "same": same})
}

fn strip_quantities(mut m: Value) -> Value {
    // ingredient and timer quantities are refitted after scaling: their amounts are compared physically, per component
    for k in ["igr", "tm"] {
        if let Some(a) = m[k].as_array_mut() {
            for x in a {
                x["q"] = json!(null);
            }
        }
    }
    // Value -> fixed flag is always true after scaling: compare cookware / timers through values and units only
    for k in ["cw", "tm"] {
        if let Some(a) = m[k].as_array_mut() {
            for x in a {
                if x["q"].get("fixed").is_some() {
                    x["q"]["fixed"] = json!(true);
                }
            }
        }
    }
    m
}
fn strip_fixed(mut m: Value) -> Value {
    for k in ["igr", "cw", "tm"] {
        if let Some(a) = m[k].as_array_mut() {
            for x in a {
                if x["q"].get("fixed").is_some() {
                    x["q"]["fixed"] = json!(true);
                }
            }
        }
    }
    m
}

pub fn observe_scale(text: &str, bits: u32, conv_name: &str, f: f64, pred_base: f64) -> Value {
    let conv = if conv_name == "model" { crate::group::model_converter() } else { converter(conv_name) };
    let parser = CooklangParser::new(ext_from_bits(bits), conv.clone());
    let parse = || parser.parse(text).into_output();
    let Some(orig) = parse() else { return json!({"st": "nooutput"}) };
    let before_proj = project::recipe(&orig);
    let scaled = parse().unwrap().scale(f, &conv);
    let data = scaled.scaled_data().unwrap();
    let igr: Vec<Value> = orig.ingredients.iter().zip(scaled.ingredients.iter()).zip(data.ingredients.iter())
        .map(|((b, a), o)| component(b.quantity.as_ref().map(|q| (unscaled(q.value()), q.unit())), a.quantity.as_ref().map(|q| (q.value(), q.unit())), o, f, &conv))
        .collect();
    let cw: Vec<Value> = orig.cookware.iter().zip(scaled.cookware.iter()).zip(data.cookware.iter())
        .map(|((b, a), o)| component(b.quantity.as_ref().map(|q| (unscaled(q), None)), a.quantity.as_ref().map(|q| (q, None)), o, f, &conv))
        .collect();
    let tm: Vec<Value> = orig.timers.iter().zip(scaled.timers.iter()).zip(data.timers.iter())
        .map(|((b, a), o)| component(b.quantity.as_ref().map(|q| (unscaled(q.value()), q.unit())), a.quantity.as_ref().map(|q| (q.value(), q.unit())), o, f, &conv))
        .collect();
    let rest_unchanged = strip_quantities(before_proj.clone()) == strip_quantities(project::recipe(&scaled))
        && orig.inline_quantities == scaled.inline_quantities
        && orig.metadata == scaled.metadata
        && orig.ingredients.len() == scaled.ingredients.len();
    let default = parse().unwrap().default_scale();
    let default_verbatim = strip_fixed(before_proj) == strip_fixed(project::recipe(&default)) && default.is_default_scaled();
    // scale_to_servings(n) == scale(n / first declared servings); the base comes from the SPECIFICATION's prediction
    let mut servings_equiv = true;
    for n in [1u32, 3, 7] {
        let a = parse().unwrap().scale_to_servings(n, &conv);
        let b = parse().unwrap().scale(n as f64 / pred_base, &conv);
        if serde_json::to_string(&a).ok() != serde_json::to_string(&b).ok() {
            servings_equiv = false;
        }
    }
    let base_used = orig.servings().and_then(|s| s.first().copied()).unwrap_or(1);
    // servings set by hand replace the declared ones: scale_to_servings(n) == scale(n / 5) after set_servings([5, 3])
    let mut set_equiv = true;
    for n in [2u32, 10] {
        let mut r = parse().unwrap();
        r.set_servings(vec![5, 3]);
        let a = r.scale_to_servings(n, &conv);
        let b = parse().unwrap().scale(n as f64 / 5.0, &conv);
        let strip = |x: &cooklang::ScaledRecipe| project::recipe(x);
        if strip(&a) != strip(&b) {
            set_equiv = false;
        }
    }
    json!({"st": "ok", "igr": igr, "cw": cw, "tm": tm, "outcome_lens": [data.ingredients.len(), data.cookware.len(), data.timers.len()],
           "rest_unchanged": rest_unchanged, "default_verbatim": default_verbatim, "servings_equiv": servings_equiv, "base_used": base_used,
           "set_servings_equiv": set_equiv})
}

/// `scale --in docs.ndjson --out obs.ndjson --factors 0.5,2,...`
pub fn main(args: &[String]) {
    let recs = read_ndjson(req_arg(args, "--in"));
    if let Some(p) = arg(args, "--std") {
        let std: Value = serde_json::from_str(&std::fs::read_to_string(p).expect("std file")).expect("std json");
        let mut m = std::collections::HashMap::new();
        if let Some(defs) = std["defs"].as_object() {
            for (k, v) in defs {
                if let Some(x) = v.as_str().and_then(|x| x.parse::<f64>().ok()) {
                    m.insert(k.clone(), x);
                }
            }
        }
        let _ = STD.set(m);
    }
    let factors: Vec<f64> = arg(args, "--factors").unwrap_or("0.5,2").split(',').map(|x| x.parse().unwrap()).collect();
    let out: Vec<Value> = recs
        .par_iter()
        .flat_map_iter(|r| {
            let text = input_text(r);
            let bits = project::ext_bits_from_names(&r["ext"]);
            let conv = r.get("conv").and_then(|c| c.as_str()).unwrap_or("bundled").to_string();
            let base = r["pred"]["model"]["servings"].as_array().and_then(|a| a.first()).and_then(|x| x.as_f64()).unwrap_or(1.0);
            factors
                .iter()
                .map(|f| {
                    let obs = guarded(|| observe_scale(&text, bits, &conv, *f, base)).unwrap_or_else(|p| json!({"st": "panic", "sig": panic_signature(&p)}));
                    json!({"text": text, "ext": r["ext"], "conv": conv, "factor": f.to_string(), "pred": {"model": r["pred"]["model"]}, "obs": obs})
                })
                .collect::<Vec<_>>()
        })
        .collect();
    let _ = observe; // (docs::observe is used by other recorders)
    write_ndjson(req_arg(args, "--out"), &out);
    println!("scale: {} records", out.len());
}
