//! Recorder for generated documents (C01, C02, C06, C07, C17, ...): parses the text of each
//! record under the record's extension set / converter and records the projected result.
use crate::prec::*;
use crate::project;
use crate::util::*;
use cooklang::CooklangParser;
use rayon::prelude::*;
use serde_json::{json, Value};

fn folds(r: &cooklang::ScalableRecipe) -> Value {
    // case-insensitive identification of names, computed with the comparison the analysis uses
    let mut names: Vec<String> = r.ingredients.iter().map(|i| i.name.clone()).chain(r.cookware.iter().map(|c| c.name.clone())).collect();
    names.dedup();
    let mut m = serde_json::Map::new();
    for n in &names {
        let rep = names.iter().find(|o| unicase::UniCase::new(o.as_str()) == unicase::UniCase::new(n.as_str())).unwrap();
        m.insert(project::s(n), json!(project::s(rep)));
    }
    Value::Object(m)
}

pub fn observe(text: &str, ext_bits: u32, conv: &str, snaps: bool) -> Value {
    let parser = CooklangParser::new(ext_from_bits(ext_bits), converter(conv));
    if snaps {
        cooklang::analysis::verif::install();
    }
    let res = guarded(|| parser.parse(text));
    let snapshots = if snaps { cooklang::analysis::verif::take() } else { vec![] };
    let mut o = observe_result(res);
    if snaps {
        o["snaps"] = Value::Array(
            snapshots
                .iter()
                .map(|s| {
                    json!({"ev": s.event, "def": s.define_mode, "dup": s.duplicate_mode, "ctr": s.step_counter, "old": s.old_style_metadata,
                           "blk": s.in_block, "igr": s.ingredients, "cw": s.cookware, "tm": s.timers, "inl": s.inline_quantities,
                           "secs": s.sections, "cur": s.current_content, "steps": s.current_steps, "diags": s.diagnostics})
                })
                .collect(),
        );
    }
    o
}

fn observe_result(res: Result<cooklang::RecipeResult, String>) -> Value {
    match res {
        Err(p) => json!({"st": "panic", "sig": panic_signature(&p)}),
        Ok(res) => {
            let mut o = json!({
                "st": "ok",
                "valid": res.is_valid(),
                "has_output": res.has_output(),
                "diags": project::diags(res.report()),
            });
            if let Some(r) = res.output() {
                let mut m = project::recipe(r);
                m["servings"] = json!(r.servings().map(|s| s.to_vec()).unwrap_or_default());
                o["model"] = m;
                o["folds"] = folds(r);
            }
            o
        }
    }
}

/// `docs --in replay.ndjson --out obs.ndjson [--snaps] [--strip-pred]`
pub fn main(args: &[String]) {
    let recs = read_ndjson(req_arg(args, "--in"));
    let snaps = args.iter().any(|a| a == "--snaps");
    let out: Vec<Value> = recs
        .par_iter()
        .map(|r| {
            let text = input_text(r);
            let bits = match r.get("extbits").and_then(|b| b.as_u64()) {
                Some(b) => b as u32,
                None => project::ext_bits_from_names(&r["ext"]),
            };
            let conv = r.get("conv").and_then(|c| c.as_str()).unwrap_or("bundled");
            let mut o = r.clone();
            o["len"] = json!(text.len());
            o["obs"] = observe(&text, bits, conv, snaps);
            if let Some(f) = o["obs"].get("folds").cloned() {
                o["folds"] = f;
            }
            o
        })
        .collect();
    write_ndjson(req_arg(args, "--out"), &out);
    println!("docs: {} records", out.len());
}
