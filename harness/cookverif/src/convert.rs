//! C09 recorder: (1) the cases of MC_Convert on the model converter with exact predictions,
//! (2) every ordered pair / triple of the bundled units against the standard definitions,
//! (3) ScaledRecipe::convert on recipes.  IEEE comparisons are made here, judged in TLA+.
use crate::group::{model_converter, qty_from_json};
use crate::prec::*;
use crate::util::*;
use cooklang::convert::{ConvertError, ConvertTo, ConvertUnit, ConvertValue, Converter, System};
use cooklang::quantity::{Quantity, Value as QValue};
use cooklang::{CooklangParser, Extensions};
use rayon::prelude::*;
use serde_json::{json, Value};

fn err_class(e: &ConvertError) -> &'static str {
    match e {
        ConvertError::NoUnit(_) => "NoUnit",
        ConvertError::TextValue(_) => "TextValue",
        ConvertError::MixedQuantities { .. } => "MixedQuantities",
        ConvertError::BestUnitNotFound { .. } => "BestUnitNotFound",
        ConvertError::UnknownUnit(_) => "UnknownUnit",
        // a variant added to the library later: the class of an error is only compared as drift
        #[allow(unreachable_patterns)]
        _ => "Other",
    }
}

fn close(x: f64, n: f64, d: f64, tol: f64) -> bool {
    let want = n / d;
    (x - want).abs() <= tol * want.abs().max(1.0)
}

/// the observed numbers against the specification's exact amount for the OBSERVED unit (pred.alts: one entry per unit of
/// the designated list); false when the unit is not in the list
fn close_alt(unit: &str, lo: f64, hi: f64, p: &Value) -> bool {
    p["alts"].as_array().map_or(false, |alts| {
        alts.iter().any(|a| {
            a["unit"].as_str() == Some(unit)
                && close(lo, a["lo"]["n"].as_f64().unwrap_or(0.0), a["lo"]["d"].as_f64().unwrap_or(1.0), 1e-9)
                && close(hi, a["hi"]["n"].as_f64().unwrap_or(0.0), a["hi"]["d"].as_f64().unwrap_or(1.0), 1e-9)
        })
    })
}

fn ends(q: &Quantity<QValue>) -> Option<(f64, f64)> {
    match q.value() {
        QValue::Number(n) => Some((n.value(), n.value())),
        QValue::Range { start, end } => Some((start.value(), end.value())),
        QValue::Text(_) => None,
    }
}

fn model_case(r: &Value, conv: &Converter) -> Value {
    let q0 = qty_from_json(&json!({"t": r["q"]["t"], "lo": r["q"]["lo"], "hi": r["q"]["hi"], "unit": r["q"]["unit"], "txt": "some"}));
    let mut q = q0.clone();
    let kind = r["kind"].as_str().unwrap();
    let target = r["target"].as_str().unwrap();
    let res = guarded(|| match kind {
        "unit" => q.convert(target, conv),
        "system" => q.convert(if target == "metric" { System::Metric } else { System::Imperial }, conv),
        _ => q.fit(conv),
    });
    let p = &r["pred"];
    let mut o = match res {
        Err(pn) => json!({"st": "panic", "sig": panic_signature(&pn)}),
        Ok(Err(e)) => json!({"st": "err", "err": err_class(&e), "unchanged": q == q0}),
        Ok(Ok(())) => {
            let unit = q.unit().unwrap_or("").to_string();
            let (lo, hi) = ends(&q).unwrap_or((f64::NAN, f64::NAN));
            let close_ok = ends(&q).is_some()
                && close(lo, p["lo"]["n"].as_f64().unwrap_or(0.0), p["lo"]["d"].as_f64().unwrap_or(1.0), 1e-9)
                && close(hi, p["hi"]["n"].as_f64().unwrap_or(0.0), p["hi"]["d"].as_f64().unwrap_or(1.0), 1e-9);
            json!({"st": "ok", "unit": unit, "close": close_ok || ends(&q).is_none(), "close_alt": close_alt(&unit, lo, hi, p) || ends(&q).is_none(),
                   "is_text": ends(&q).is_none(), "unchanged": q == q0})
        }
    };
    // the same through Converter::convert
    if kind != "fit" && r["q"]["t"] != "text" && !r["q"]["unit"].as_str().unwrap().is_empty() {
        let v = if r["q"]["t"] == "num" {
            ConvertValue::Number(r["q"]["lo"].as_f64().unwrap() / 4.0)
        } else {
            ConvertValue::Range(r["q"]["lo"].as_f64().unwrap() / 4.0..=r["q"]["hi"].as_f64().unwrap() / 4.0)
        };
        let to = match kind {
            "unit" => ConvertTo::Unit(ConvertUnit::Key(target)),
            _ => ConvertTo::Best(if target == "metric" { System::Metric } else { System::Imperial }),
        };
        let direct = guarded(|| conv.convert(v, ConvertUnit::Key(r["q"]["unit"].as_str().unwrap()), to));
        o["api"] = match direct {
            Err(_) => json!("panic"),
            Ok(Err(e)) => json!(err_class(&e)),
            Ok(Ok((val, u))) => {
                let (lo, hi) = match val {
                    ConvertValue::Number(n) => (n, n),
                    ConvertValue::Range(rg) => (*rg.start(), *rg.end()),
                };
                // to a system the choice among the designated units is free: the amount must be the specified one for the chosen unit
                let ok = if p.get("alts").is_some() {
                    close_alt(u.symbol(), lo, hi, p)
                } else {
                    close(lo, p["lo"]["n"].as_f64().unwrap_or(0.0), p["lo"]["d"].as_f64().unwrap_or(1.0), 1e-9)
                        && close(hi, p["hi"]["n"].as_f64().unwrap_or(0.0), p["hi"]["d"].as_f64().unwrap_or(1.0), 1e-9)
                        && u.symbol() == p["unit"].as_str().unwrap_or("")
                };
                json!(if ok { "ok" } else { "differs" })
            }
        };
    } else {
        o["api"] = json!("n/a");
    }
    let mut out = r.clone();
    out["kind_rec"] = json!("model");
    out["obs"] = o;
    out
}

/// every ordered pair and same-quantity triple of the bundled units over a value grid
fn bundled_cases(std: &Value) -> Vec<Value> {
    let conv = Converter::bundled();
    let units: Vec<_> = conv.all_units().collect();
    let grid = [0.0, 0.25, 1.0, 3.5, 250.0, 1e4, -2.0, 6.5e9 + 0.5, 3e12 + 0.25, 0.07];
    let std_ratio = |sym: &str| -> Option<(f64, f64)> {
        let key = match sym {
            "fl oz" => "floz",
            "°C" => "C",
            "°F" => "F",
            s => s,
        };
        if let Some(t) = std["temp"].get(key) {
            return Some((t["ratio"].as_str()?.parse().ok()?, t["offset"].as_str()?.parse().ok()?));
        }
        std["defs"].get(key).and_then(|s| s.as_str()).and_then(|s| s.parse().ok()).map(|r| (r, 0.0))
    };
    let mut out = Vec::new();
    for a in &units {
        for b in &units {
            if a.physical_quantity != b.physical_quantity {
                continue;
            }
            let mut back_ok = true;
            let mut via_ok = true;
            let mut std_ok = true;
            let mut has_std = false;
            let mut worst = 0.0f64;
            for v in grid {
                let direct = match conv.convert(ConvertValue::Number(v), ConvertUnit::Key(a.symbol()), ConvertTo::Unit(ConvertUnit::Key(b.symbol()))) {
                    Ok((ConvertValue::Number(x), _)) => x,
                    _ => {
                        back_ok = false;
                        continue;
                    }
                };
                if let Ok((ConvertValue::Number(x), _)) = conv.convert(ConvertValue::Number(direct), ConvertUnit::Key(b.symbol()), ConvertTo::Unit(ConvertUnit::Key(a.symbol()))) {
                    if (x - v).abs() > 1e-9 * v.abs().max(1.0) {
                        back_ok = false;
                    }
                } else {
                    back_ok = false;
                }
                for c in &units {
                    if c.physical_quantity != a.physical_quantity {
                        continue;
                    }
                    let step = conv
                        .convert(ConvertValue::Number(v), ConvertUnit::Key(a.symbol()), ConvertTo::Unit(ConvertUnit::Key(c.symbol())))
                        .and_then(|(m, _)| conv.convert(m, ConvertUnit::Key(c.symbol()), ConvertTo::Unit(ConvertUnit::Key(b.symbol()))));
                    match step {
                        Ok((ConvertValue::Number(x), _)) if (x - direct).abs() <= 1e-9 * direct.abs().max(1.0) => {}
                        _ => via_ok = false,
                    }
                }
                if let (Some((ra, oa)), Some((rb, ob))) = (std_ratio(a.symbol()), std_ratio(b.symbol())) {
                    has_std = true;
                    let want = (v + oa) * ra / rb - ob;
                    let err = (direct - want).abs() / want.abs().max(1.0);
                    worst = worst.max(err);
                    if err > 1e-6 {
                        std_ok = false;
                    }
                    // the same through the quantity (ScaledQuantity::convert may store the result as a fraction plus its error)
                    let mut q = Quantity::new(QValue::Number(v.into()), Some(a.symbol().to_string()));
                    match guarded(|| q.convert(b.symbol(), &conv).map(|_| ends(&q))) {
                        Ok(Ok(Some((x, _)))) if (x - want).abs() / want.abs().max(1.0) <= 1e-6 => {}
                        _ => std_ok = false,
                    }
                }
            }
            out.push(json!({"kind_rec": "bundled", "from": crate::project::s(a.symbol()), "to": crate::project::s(b.symbol()),
                            "back_ok": back_ok, "via_ok": via_ok, "std_ok": std_ok, "has_std": has_std, "worst_ppb": (worst * 1e9).round().min(2e9) as i64}));
        }
    }
    out
}

/// Quantity::fit over a value sweep of every bundled unit: the fitted quantity is the same amount (fraction error
/// included), measured with the specification's standard definitions where it has them
fn fit_cases(std: &Value) -> Vec<Value> {
    let conv = Converter::bundled();
    let std_ratio = |u: &cooklang::convert::Unit| -> f64 {
        let key = if u.symbol() == "fl oz" { "floz" } else { u.symbol() };
        std["defs"].get(key).and_then(|s| s.as_str()).and_then(|s| s.parse().ok()).unwrap_or(u.ratio)
    };
    let mut grid: Vec<f64> = (1..=400).map(|k| k as f64 * 0.05).collect();
    grid.extend([0.875, 6.35, 0.3, 33.0, 48.0, 100.0, 128.0, 1000.0, 2500.0]);
    // around and beyond u32 / the widest whole part a fraction can carry, and small amounts no fraction approximates
    grid.extend([4294967295.5, 4294967296.25, 7e10 + 0.5, 2e12 + 1.0 / 3.0, 65535.3, 0.07, 0.013, 0.0007]);
    let mut out = Vec::new();
    for u in conv.all_units() {
        if u.difference != 0.0 {
            continue;
        }
        let mut bad = 0;
        let mut first = String::new();
        let mut panics = 0;
        for &v in &grid {
            let mut q = Quantity::new(QValue::Number(v.into()), Some(u.symbol().to_string()));
            match guarded(|| {
                let r = q.fit(&conv);
                (r.is_ok(), q.clone())
            }) {
                Err(_) => panics += 1,
                Ok((_, after)) => {
                    let ok = match (ends(&after), after.unit().and_then(|x| conv.find_unit(x))) {
                        (Some((lo, _)), Some(au)) => au.physical_quantity == u.physical_quantity && (lo * std_ratio(&au) - v * std_ratio(&u)).abs() <= 1e-6 * (v * std_ratio(&u)).abs().max(1e-9),
                        _ => false,
                    };
                    if !ok {
                        bad += 1;
                        if first.is_empty() {
                            first = format!("{v} {} -> {}", u.symbol(), after);
                        }
                    }
                }
            }
        }
        out.push(json!({"kind_rec": "fit", "unit": crate::project::s(u.symbol()), "values": grid.len(), "bad": bad, "panics": panics, "first": crate::project::s(&first),
                        "preserved": bad == 0 && panics == 0}));
    }
    out
}

/// amounts of every quantity of a recipe in base units before and after ScaledRecipe::convert
fn recipe_cases(docs: &[Value], conv: &Converter) -> Vec<Value> {
    docs.par_iter()
        .filter_map(|r| {
            let text = input_text(r);
            let parser = CooklangParser::new(Extensions::all(), conv.clone());
            let res = guarded(|| parser.parse(&text)).ok()?;
            if !res.is_valid() {
                return None;
            }
            let base = |q: &Quantity<QValue>| -> Option<(f64, f64, String)> {
                let u = conv.find_unit(q.unit()?)?;
                let (lo, hi) = ends(q)?;
                Some(((lo + u.difference) * u.ratio, (hi + u.difference) * u.ratio, u.physical_quantity.to_string()))
            };
            let mut out = Vec::new();
            for sys in [System::Metric, System::Imperial] {
                let parsed = parser.parse(&text).into_output()?;
                let mut rec = parsed.default_scale();
                let before: Vec<Option<Quantity<QValue>>> = rec.ingredients.iter().map(|i| i.quantity.clone()).chain(rec.timers.iter().map(|t| t.quantity.clone()))
                    .chain(rec.inline_quantities.iter().map(|q| Some(q.clone()))).collect();
                let errs = match guarded(|| rec.convert(sys, conv)) {
                    Ok(e) => e,
                    Err(p) => {
                        out.push(json!({"kind_rec": "recipe", "text": text, "st": "panic", "sig": panic_signature(&p)}));
                        continue;
                    }
                };
                let after: Vec<Option<Quantity<QValue>>> = rec.ingredients.iter().map(|i| i.quantity.clone()).chain(rec.timers.iter().map(|t| t.quantity.clone()))
                    .chain(rec.inline_quantities.iter().map(|q| Some(q.clone()))).collect();
                let mut preserved = true;
                let mut in_best = true;
                let mut unchanged_failures = true;
                let mut convertible = 0;
                let mut failures = 0;
                for (b, a) in before.iter().zip(after.iter()) {
                    let (Some(b), Some(a)) = (b, a) else { continue };
                    match base(b) {
                        Some((blo, bhi, q)) => {
                            convertible += 1;
                            match base(a) {
                                Some((alo, ahi, q2)) => {
                                    if q != q2 || (alo - blo).abs() > 1e-9 * blo.abs().max(1.0) || (ahi - bhi).abs() > 1e-9 * bhi.abs().max(1.0) {
                                        preserved = false;
                                    }
                                    let u = conv.find_unit(a.unit().unwrap()).unwrap();
                                    if !conv.best_units(u.physical_quantity, Some(sys)).iter().any(|x| x.symbol() == u.symbol()) {
                                        in_best = false;
                                    }
                                }
                                None => preserved = false,
                            }
                        }
                        None => {
                            failures += 1;
                            if a != b {
                                unchanged_failures = false;
                            }
                        }
                    }
                }
                // there and back: a second conversion (to the other system) and a third (back) start from fitted fractions
                // whose recorded error is part of the amount
                let other = if matches!(sys, System::Metric) { System::Imperial } else { System::Metric };
                let _ = guarded(|| {
                    let _ = rec.convert(other, conv);
                    let _ = rec.convert(sys, conv);
                });
                let again: Vec<Option<Quantity<QValue>>> = rec.ingredients.iter().map(|i| i.quantity.clone()).chain(rec.timers.iter().map(|t| t.quantity.clone()))
                    .chain(rec.inline_quantities.iter().map(|q| Some(q.clone()))).collect();
                for (b, a) in before.iter().zip(again.iter()) {
                    let (Some(b), Some(a)) = (b, a) else { continue };
                    if let (Some((blo, bhi, _)), Some((alo, ahi, _))) = (base(b), base(a)) {
                        if (alo - blo).abs() > 1e-9 * blo.abs().max(1.0) || (ahi - bhi).abs() > 1e-9 * bhi.abs().max(1.0) {
                            preserved = false;
                        }
                    }
                }
                out.push(json!({"kind_rec": "recipe", "text": text, "st": "ok", "system": format!("{sys}"), "preserved": preserved, "in_best": in_best,
                                "unchanged_failures": unchanged_failures, "errors": errs.len(), "failures": failures, "convertible": convertible}));
            }
            Some(out)
        })
        .flatten()
        .collect()
}

/// `convert --in cases.ndjson --std std.json --docs docs.ndjson --out obs.ndjson`
pub fn main(args: &[String]) {
    let recs = read_ndjson(req_arg(args, "--in"));
    let conv = model_converter();
    let mut out: Vec<Value> = recs.par_iter().map(|r| model_case(r, &conv)).collect();
    let std: Value = serde_json::from_str(&std::fs::read_to_string(req_arg(args, "--std")).unwrap()).unwrap();
    out.extend(bundled_cases(&std));
    out.extend(fit_cases(&std));
    if let Some(d) = arg(args, "--docs") {
        let docs = read_ndjson(d);
        out.extend(recipe_cases(&docs, &conv));
        out.extend(recipe_cases(&docs, &Converter::bundled()));
    }
    write_ndjson(req_arg(args, "--out"), &out);
    println!("convert: {} records ({} model cases)", out.len(), recs.len());
}
