//! C10 recorder: add / merge sequences on the real GroupedQuantity with the MODEL converter
//! (small integer ratios, fractions off) and totals per class after every step; and, for
//! recipes, group_ingredients / IngredientList / categorize totals.
use crate::project;
use crate::util::*;
use cooklang::convert::{Converter, UnitsFile};
use cooklang::quantity::{GroupedQuantity, Number, Quantity, Value as QValue};
use rayon::prelude::*;
use serde_json::{json, Value};
use std::collections::BTreeMap;

pub const MODEL_UNITS: &str = r#"
default_system = "metric"
[[quantity]]
quantity = "volume"
best = { metric = ["ml", "l"], imperial = ["tsp", "cup"] }
[quantity.units]
metric = [ { names = ["millilitre"], symbols = ["ml"], ratio = 1 }, { names = ["litre"], symbols = ["l"], ratio = 1000 } ]
imperial = [ { names = ["teaspoon"], symbols = ["tsp"], ratio = 5 }, { names = ["cup", "cups"], symbols = ["c"], ratio = 240 } ]
[[quantity]]
quantity = "mass"
best = { metric = ["g", "kg"], imperial = ["oz", "lb"] }
[quantity.units]
metric = [ { names = ["gram"], symbols = ["g"], ratio = 1 }, { names = ["kilogram"], symbols = ["kg"], ratio = 1000 } ]
imperial = [ { names = ["ounce"], symbols = ["oz"], ratio = 28 }, { names = ["pound"], symbols = ["lb"], ratio = 454 } ]
[[quantity]]
quantity = "length"
best = ["cm"]
units = [ { names = ["centimetre"], symbols = ["cm"], ratio = 1 } ]
[[quantity]]
quantity = "temperature"
best = { metric = ["C"], imperial = ["X"] }
[quantity.units]
metric = [ { names = ["celsius"], symbols = ["C", "ºC"], ratio = 1, difference = 273 } ]
imperial = [ { names = ["xdegree"], symbols = ["X"], ratio = 2, difference = 10 } ]
[[quantity]]
quantity = "time"
best = ["s", "min", "h"]
units = [ { names = ["second"], symbols = ["s"], ratio = 1 }, { names = ["minute", "minutes"], symbols = ["min"], ratio = 60 }, { names = ["hour"], symbols = ["h"], ratio = 3600 } ]
"#;

pub fn model_converter() -> Converter {
    let f: UnitsFile = toml::from_str(MODEL_UNITS).expect("model units");
    Converter::builder().with_units_file(f).expect("add").finish().expect("model converter")
}

pub fn qty_from_json(q: &Value) -> Quantity<QValue> {
    qty_from_json_div(q, 1.0)
}

/// the same quantity with its amount divided by `div` (thirds and seven-thousandths survive no decimal rounding)
pub fn qty_from_json_div(q: &Value, div: f64) -> Quantity<QValue> {
    let unit = q["unit"].as_str().filter(|u| !u.is_empty()).map(|u| u.to_string());
    let v = match q["t"].as_str().unwrap() {
        "num" => QValue::Number(Number::Regular(q["lo"].as_f64().unwrap() / 4.0 / div)),
        "range" => QValue::Range { start: Number::Regular(q["lo"].as_f64().unwrap() / 4.0 / div), end: Number::Regular(q["hi"].as_f64().unwrap() / 4.0 / div) },
        _ => QValue::Text(q["txt"].as_str().unwrap().to_string()),
    };
    Quantity::new(v, unit)
}

/// totals per class in quarter base units; `exact` tells whether every total was within 1e-6 of an integer
pub fn totals<'a>(qs: impl Iterator<Item = &'a Quantity<QValue>>, conv: &Converter) -> Value {
    totals_div(qs, conv, 1.0)
}

/// totals multiplied back by `div`
pub fn totals_div<'a>(qs: impl Iterator<Item = &'a Quantity<QValue>>, conv: &Converter, div: f64) -> Value {
    let mut classes: BTreeMap<String, (f64, f64)> = BTreeMap::new();
    let mut texts: BTreeMap<(String, String), u64> = BTreeMap::new();
    for q in qs {
        let unit = q.unit().unwrap_or("");
        let (cls, mul) = match conv.find_unit(unit) {
            _ if unit.is_empty() => ("none".to_string(), 1.0),
            Some(u) => (format!("q:{}", u.physical_quantity), u.ratio),
            None => (format!("u:{}", project::s(unit)), 1.0),
        };
        match q.value() {
            QValue::Text(t) => *texts.entry((project::s(t), project::s(unit))).or_insert(0) += 1,
            QValue::Number(n) => {
                let e = classes.entry(cls).or_insert((0.0, 0.0));
                e.0 += n.value() * mul * 4.0 * div;
                e.1 += n.value() * mul * 4.0 * div;
            }
            QValue::Range { start, end } => {
                let e = classes.entry(cls).or_insert((0.0, 0.0));
                e.0 += start.value() * mul * 4.0 * div;
                e.1 += end.value() * mul * 4.0 * div;
            }
        }
    }
    let mut exact = true;
    let cl: Vec<Value> = classes
        .iter()
        .map(|(c, (lo, hi))| {
            if (lo - lo.round()).abs() > 1e-6 * lo.abs().max(1.0) || (hi - hi.round()).abs() > 1e-6 * hi.abs().max(1.0) {
                exact = false;
            }
            json!({"cls": c, "lo": lo.round() as i64, "hi": hi.round() as i64})
        })
        .collect();
    let tx: Vec<Value> = texts.iter().map(|((t, u), n)| json!({"txt": t, "unit": u, "n": n})).collect();
    json!({"classes": cl, "texts": tx, "exact": exact})
}

/// group totals with the BUNDLED converter (fractions on for imperial units): a range or number added in two halves,
/// the group fitted; both ends of the total must be the sum of the inputs as physical amounts (ratios: the specification's
/// standard definitions when it has them). One record per unit.
pub fn bundled_fit(std: &Value) -> Vec<Value> {
    let conv = Converter::bundled();
    let ranges: Vec<(f64, f64)> = {
        let mut v = Vec::new();
        for lo in [0.3, 0.5, 1.0, 2.0, 3.0, 4.0, 6.0, 8.0, 12.0, 16.0, 24.0, 32.0, 47.0, 48.0, 96.0] {
            for k in [1.0, 1.05, 1.1, 1.2333, 1.37, 1.5, 1.77, 2.31, 3.3] {
                v.push((lo, lo * k));
            }
        }
        v
    };
    let mut out = Vec::new();
    for u in conv.all_units() {
        if u.difference != 0.0 {
            continue;
        }
        let ratio = |x: &cooklang::convert::Unit| -> f64 {
            let key = if x.symbol() == "fl oz" { "floz" } else { x.symbol() };
            std["defs"].get(key).and_then(|s| s.as_str()).and_then(|s| s.parse().ok()).unwrap_or(x.ratio)
        };
        let (mut bad, mut panics, mut first) = (0, 0, String::new());
        for &(lo, hi) in &ranges {
            let half = |a: f64, b: f64| {
                let v = if a == b { QValue::Number(Number::Regular(a / 2.0)) } else { QValue::Range { start: Number::Regular(a / 2.0), end: Number::Regular(b / 2.0) } };
                Quantity::new(v, Some(u.symbol().to_string()))
            };
            let r = guarded(|| {
                let mut g = GroupedQuantity::empty();
                g.add(&half(lo, hi), &conv);
                g.add(&half(lo, hi), &conv);
                let _ = g.fit(&conv);
                g.into_vec()
            });
            match r {
                Err(_) => panics += 1,
                Ok(v) => {
                    let ok = v.len() == 1 && {
                        let q = &v[0];
                        let (a, b) = match q.value() {
                            QValue::Number(n) => (n.value(), n.value()),
                            QValue::Range { start, end } => (start.value(), end.value()),
                            QValue::Text(_) => (f64::NAN, f64::NAN),
                        };
                        match q.unit().and_then(|x| conv.find_unit(x)) {
                            Some(au) => {
                                let close = |x: f64, w: f64| (x - w).abs() <= 1e-6 * w.abs().max(1e-9);
                                au.physical_quantity == u.physical_quantity && close(a * ratio(&au), lo * ratio(&u)) && close(b * ratio(&au), hi * ratio(&u))
                            }
                            None => false,
                        }
                    };
                    if !ok {
                        bad += 1;
                        if first.is_empty() {
                            first = format!("{lo}-{hi} {} in two halves -> {}", u.symbol(), v.iter().map(|q| q.to_string()).collect::<Vec<_>>().join(" + "));
                        }
                    }
                }
            }
        }
        out.push(json!({"kind": "bundledfit", "unit": project::s(u.symbol()), "cases": ranges.len(), "bad": bad, "panics": panics, "first": project::s(&first),
                        "ops": [], "totals1": [], "texts1": [], "obs": {"st": "ok", "steps": []}, "preserved": bad == 0 && panics == 0}));
    }
    out
}

/// `group --in ops.ndjson --out obs.ndjson`
pub fn main(args: &[String]) {
    let recs = read_ndjson(req_arg(args, "--in"));
    let conv = model_converter();
    let out: Vec<Value> = recs
        .par_iter()
        .map(|r| {
            let mut g = [GroupedQuantity::empty(), GroupedQuantity::empty()];
            let mut steps = Vec::new();
            let res = guarded(|| {
                for op in r["ops"].as_array().unwrap() {
                    match op["op"].as_str().unwrap() {
                        "add" => {
                            let k = op["g"].as_u64().unwrap() as usize - 1;
                            g[k].add(&qty_from_json(&op["q"]), &conv);
                        }
                        _ => {
                            let other = g[1].clone();
                            g[0].merge(&other, &conv);
                        }
                    }
                    let mut fitted = g[0].clone();
                    let fit_ok = fitted.fit(&conv).is_ok();
                    steps.push(json!({"g1": totals(g[0].iter(), &conv), "g2": totals(g[1].iter(), &conv),
                                      "g1fit": totals(fitted.iter(), &conv), "fit_ok": fit_ok, "len1": g[0].len(), "vec1": g[0].clone().into_vec().len()}));
                }
            });
            // the whole sequence again with every amount divided by 3 and by 7000: the final totals, multiplied back
            let scaled = |div: f64| -> Value {
                guarded(|| {
                    let mut h = [GroupedQuantity::empty(), GroupedQuantity::empty()];
                    for op in r["ops"].as_array().unwrap() {
                        match op["op"].as_str().unwrap() {
                            "add" => h[op["g"].as_u64().unwrap() as usize - 1].add(&qty_from_json_div(&op["q"], div), &conv),
                            _ => {
                                let other = h[1].clone();
                                h[0].merge(&other, &conv);
                            }
                        }
                    }
                    totals_div(h[0].iter(), &conv, div)
                })
                .unwrap_or_else(|_| json!({"classes": [], "texts": [], "exact": false}))
            };
            let (third, small) = (scaled(3.0), scaled(7000.0));
            let mut o = r.clone();
            o["obs"] = match res {
                Ok(()) => json!({"st": "ok", "steps": steps, "final3": third, "final7000": small}),
                Err(p) => json!({"st": "panic", "sig": panic_signature(&p), "steps": steps}),
            };
            o
        })
        .collect();
    let mut out = out;
    let nseq = out.len();
    if let Some(p) = arg(args, "--std") {
        let std: Value = serde_json::from_str(&std::fs::read_to_string(p).expect("std file")).expect("std json");
        out.extend(bundled_fit(&std));
    }
    write_ndjson(req_arg(args, "--out"), &out);
    println!("group: {} sequences, {} bundled units", nseq, out.len() - nseq);
}
