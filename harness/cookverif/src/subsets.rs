//! C02 recorder: parses each document under many extension subsets.
//! Per (document, subset): the projected model (as in docs.rs). Per document: a summary with the
//! hash of the serde_json image of the whole result under each subset.
use crate::docs::observe;
use crate::prec::*;
use crate::util::*;
use cooklang::CooklangParser;
use rayon::prelude::*;
use serde_json::{json, Value};
use std::hash::{Hash, Hasher};

fn image_hash(text: &str, bits: u32, conv: &str) -> (String, usize) {
    let parser = CooklangParser::new(ext_from_bits(bits), converter(conv));
    match guarded(|| parser.parse(text)) {
        Err(_) => ("panic".into(), 1),
        Ok(res) => {
            let errs = res.report().errors().count();
            let img = match res.output() {
                Some(r) => serde_json::to_string(r).unwrap_or_else(|_| "unserialisable".into()),
                None => "no output".into(),
            };
            let mut h = std::collections::hash_map::DefaultHasher::new();
            img.hash(&mut h);
            (format!("{:016x}", h.finish()), errs)
        }
    }
}

/// `subsets --in docs.ndjson --out obs.ndjson --summary sum.ndjson [--lacking BITS]`
/// each input record may carry `lacking` (extension bits that must be off) and `conv`
pub fn main(args: &[String]) {
    let recs = read_ndjson(req_arg(args, "--in"));
    let all = all_subsets();
    let results: Vec<(Vec<Value>, Value)> = recs
        .par_iter()
        .map(|r| {
            let text = input_text(r);
            let lacking = r.get("lacking").and_then(|b| b.as_u64()).unwrap_or(0) as u32;
            let conv = r.get("conv").and_then(|c| c.as_str()).unwrap_or("bundled");
            let requiring = r.get("requiring").and_then(|b| b.as_u64()).unwrap_or(0) as u32;
            let subsets: Vec<u32> = all.iter().copied().filter(|s| s & lacking == 0 && s & requiring == requiring).collect();
            let mut per = Vec::new();
            let mut imgs = Vec::new();
            let mut errs = Vec::new();
            for bits in &subsets {
                let mut o = r.clone();
                o.as_object_mut().unwrap().remove("ext");
                o["extbits"] = json!(bits);
                o["obs"] = observe(&text, *bits, conv, false);
                per.push(o);
                let (h, e) = image_hash(&text, *bits, conv);
                imgs.push(h);
                errs.push(e);
            }
            let wf = r.get("pred").and_then(|p| p.get("wellformed")).and_then(|w| w.as_bool()).unwrap_or(true);
            let sum = json!({"text": r["text"], "conv": conv, "lacking": lacking, "exts": subsets, "imgs": imgs, "errs": errs, "wellformed": wf,
                             "src": r.get("src").cloned().unwrap_or(json!(""))});
            (per, sum)
        })
        .collect();
    let mut per_all = Vec::new();
    let mut sums = Vec::new();
    for (p, s) in results {
        per_all.extend(p);
        sums.push(s);
    }
    write_ndjson(req_arg(args, "--out"), &per_all);
    write_ndjson(req_arg(args, "--summary"), &sums);
    println!("subsets: {} parses of {} documents", per_all.len(), sums.len());
}
