//! C17 recorder: parses a base text and its variants (same document, other line endings /
//! comments / blank space) and records the projected results side by side.
use crate::docs::observe;
use crate::prec::*;
use crate::project;
use crate::sym::*;
use crate::util::*;
use rayon::prelude::*;
use serde_json::{json, Value};

/// `variants --in f --out f`: records have `text`, `variants` {kind: chunks | string}, `ext`/`extbits`, `conv`
pub fn main(args: &[String]) {
    let recs = read_ndjson(req_arg(args, "--in"));
    let out: Vec<Value> = recs
        .par_iter()
        .map(|r| {
            let text = input_text(r);
            let bits = match r.get("extbits").and_then(|b| b.as_u64()) {
                Some(b) => b as u32,
                None => project::ext_bits_from_names(&r["ext"]),
            };
            let conv = r.get("conv").and_then(|c| c.as_str()).unwrap_or("bundled");
            let base = observe(&text, bits, conv, false);
            let mut vars = Vec::new();
            if let Some(m) = r["variants"].as_object() {
                for (k, v) in m {
                    let vt = match v {
                        Value::String(s) => s.clone(),
                        other => json_chunks_to_string(other),
                    };
                    vars.push(json!({"kind": k, "same_text": vt == text, "obs": observe(&vt, bits, conv, false), "text": vt}));
                }
            }
            json!({"text": text, "extbits": bits, "conv": conv, "base": base, "vars": vars,
                   "wellformed": r.get("pred").and_then(|p| p.get("wellformed")).and_then(|w| w.as_bool()).unwrap_or(false),
                   "src": r.get("src").cloned().unwrap_or(json!(""))})
        })
        .collect();
    write_ndjson(req_arg(args, "--out"), &out);
    println!("variants: {} documents, {} variant parses", out.len(), out.iter().map(|o| o["vars"].as_array().unwrap().len()).sum::<usize>());
}
