//! C03 recorder: runs API programs (sequences of calls allowed by CookApi.tla) on inputs.
//! A panic of the code under test is data ("panic"), a call that does not come back within
//! the watchdog limit is data ("timeout").
use crate::prec::*;
use crate::util::*;
use cooklang::convert::System;
use cooklang::error::PassResult;
use cooklang::ingredient_list::IngredientList;
use cooklang::metadata::CooklangValueExt;
use cooklang::{Converter, CooklangParser, ScalableRecipe, ScaledRecipe};
use rayon::prelude::*;
use serde_json::{json, Value};
use std::sync::atomic::{AtomicU64, AtomicUsize, Ordering};
use std::sync::Arc;

const AISLE: &str = "[produce]\na|apple\nflour\n[dairy]\nmilk|b\nsalt|sea salt\n";

struct Machine<'a> {
    text: &'a str,
    parser: &'a CooklangParser,
    result: Option<PassResult<ScalableRecipe>>,
    scalable: Option<ScalableRecipe>,
    scaled: Option<ScaledRecipe>,
}

fn accessors_meta(m: &cooklang::Metadata, conv: &Converter) {
    let _ = m.title();
    let _ = m.description();
    let _ = m.tags();
    let _ = m.author();
    let _ = m.source();
    let _ = m.time(conv);
    let _ = m.servings();
    let _ = m.locale();
    let _ = m.map_filtered().count();
    for (_, v) in m.map.iter() {
        let _ = v.as_tags();
        let _ = v.as_servings();
        let _ = v.as_string_list(",");
        let _ = v.as_name_and_url();
        let _ = v.as_minutes(conv);
        let _ = v.as_time(conv).map(|t| t.total());
        let _ = v.as_u32();
        let _ = v.as_locale();
        let _ = v.as_str_like();
    }
}

impl Machine<'_> {
    /// returns false when the call cannot be made because an earlier stage produced nothing
    fn call(&mut self, c: &str) -> bool {
        let conv = self.parser.converter();
        match c {
            "parse" => self.result = Some(self.parser.parse(self.text)),
            "report_write" => {
                let r = self.result.as_ref().unwrap();
                let _ = r.is_valid();
                for color in [false, true] {
                    let mut buf = Vec::new();
                    let _ = r.report().write("r.cook", self.text, color, &mut buf);
                }
                let _ = r.report().to_string();
            }
            "metadata_only" => {
                let m = self.parser.parse_metadata(self.text);
                if let Some(m) = m.output() {
                    accessors_meta(m, conv);
                }
                let mut buf = Vec::new();
                let _ = m.report().write("r.cook", self.text, false, &mut buf);
            }
            "events" => {
                let n = cooklang::parser::PullParser::new(self.text, self.parser.extensions()).count();
                let m = cooklang::parser::PullParser::new(self.text, self.parser.extensions())
                    .into_meta_iter()
                    .count();
                let _ = n + m;
            }
            "build_ast" => {
                let p = cooklang::parser::PullParser::new(self.text, self.parser.extensions());
                let r = cooklang::ast::build_ast(p);
                if let Some(a) = r.output() {
                    let _ = serde_json::to_string(a);
                }
            }
            "output" => match self.result.take().and_then(|r| r.into_output()) {
                Some(o) => self.scalable = Some(o),
                None => return false,
            },
            "accessors" => {
                if let Some(r) = &self.scalable {
                    accessors_meta(&r.metadata, conv);
                    let _ = r.servings();
                    for i in &r.ingredients {
                        let _ = i.display_name();
                        let _ = i.modifiers();
                        let _ = i.relation.references_to();
                        let _ = i.quantity.as_ref().map(|q| q.to_string());
                    }
                } else if let Some(r) = &self.scaled {
                    accessors_meta(&r.metadata, conv);
                    let _ = r.scaled_data().map(|d| d.ingredients.len());
                    let _ = r.is_default_scaled();
                    for i in &r.ingredients {
                        let _ = i.display_name();
                        let _ = i.group_quantities(&r.ingredients, conv).to_string();
                        let _ = i.quantity.as_ref().map(|q| format!("{q} {q:#?}"));
                    }
                    for c in &r.cookware {
                        let _ = c.display_name();
                        let _ = c.group_amounts(&r.cookware).to_string();
                    }
                    for t in &r.timers {
                        let _ = t.quantity.as_ref().map(|q| q.to_string());
                    }
                    for q in &r.inline_quantities {
                        let _ = q.to_string();
                    }
                }
            }
            "serialize" => {
                if let Some(r) = &self.scalable {
                    let s = serde_json::to_string(r).unwrap_or_default();
                    let _ = serde_json::from_str::<ScalableRecipe>(&s);
                } else if let Some(r) = &self.scaled {
                    let s = serde_json::to_string(r).unwrap_or_default();
                    let _ = serde_json::from_str::<ScaledRecipe>(&s);
                }
            }
            "scale" => self.scaled = Some(self.scalable.take().unwrap().scale(2.5, conv)),
            "scale_servings" => self.scaled = Some(self.scalable.take().unwrap().scale_to_servings(3, conv)),
            "default_scale" => self.scaled = Some(self.scalable.take().unwrap().default_scale()),
            "convert_metric" => {
                let _ = self.scaled.as_mut().unwrap().convert(System::Metric, conv);
            }
            "convert_imperial" => {
                let _ = self.scaled.as_mut().unwrap().convert(System::Imperial, conv);
            }
            "group_ingredients" => {
                let r = self.scaled.as_ref().unwrap();
                for g in r.group_ingredients(conv) {
                    let _ = g.quantity.to_string();
                    let _ = g.quantity.clone().into_vec().len();
                }
            }
            "group_cookware" => {
                for g in self.scaled.as_ref().unwrap().group_cookware() {
                    let _ = g.amount.to_string();
                }
            }
            "ingredient_list" => {
                let l = IngredientList::from_recipe(self.scaled.as_ref().unwrap(), conv);
                let _ = l.iter().count();
            }
            "categorize" => {
                let aisle = cooklang::aisle::parse(AISLE).unwrap();
                let mut l = IngredientList::from_recipe(self.scaled.as_ref().unwrap(), conv);
                l.add_recipe(self.scaled.as_ref().unwrap(), conv);
                let c = l.categorize(&aisle);
                let _ = c.iter().map(|(_, l)| l.iter().count()).sum::<usize>();
            }
            other => panic!("harness: unknown call {other}"),
        }
        true
    }
}

/// runs one program; returns the list of calls made with their status
fn run_program(text: &str, parser: &CooklangParser, prog: &[String]) -> Vec<Value> {
    let mut m = Machine { text, parser, result: None, scalable: None, scaled: None };
    let mut calls = Vec::new();
    for c in prog {
        match guarded(|| m.call(c)) {
            Ok(true) => calls.push(json!({"c": c, "st": "ret"})),
            Ok(false) => break, // nothing to go on with (no output): the program ends here
            Err(p) => {
                calls.push(json!({"c": c, "st": "panic", "sig": panic_signature(&p)}));
                break;
            }
        }
    }
    calls
}

/// `calls --in inputs.ndjson --programs programs.ndjson --out obs.ndjson [--ext none,all] [--conv e,b] [--rotate N]`
/// every input runs the first `--fixed` programs under every ext x conv, plus `--rotate` of the others (round robin)
pub fn main(args: &[String]) {
    let recs = read_ndjson(req_arg(args, "--in"));
    let programs: Vec<Vec<String>> = read_ndjson(req_arg(args, "--programs"))
        .iter()
        .map(|p| p["prog"].as_array().unwrap().iter().map(|s| s.as_str().unwrap().to_string()).collect())
        .collect();
    let exts = parse_ext_list(arg(args, "--ext").unwrap_or("none,all"));
    let convs: Vec<&str> = arg(args, "--conv").unwrap_or("e,b").split(',').collect();
    let fixed: usize = arg(args, "--fixed").unwrap_or("1").parse().unwrap();
    let rotate: usize = arg(args, "--rotate").unwrap_or("1").parse().unwrap();
    let limit_ms: u64 = arg(args, "--limit-ms").unwrap_or("60000").parse().unwrap();
    let parsers: Vec<(u32, &str, CooklangParser)> = exts
        .iter()
        .flat_map(|e| convs.iter().map(|c| (*e, *c, CooklangParser::new(ext_from_bits(*e), converter(c)))))
        .collect();

    // watchdog: each worker publishes (input index, start millis); a monitor aborts the run when
    // one input has been in flight for longer than the limit and names it
    let nthreads = rayon::current_num_threads();
    let slots: Arc<Vec<(AtomicUsize, AtomicU64)>> =
        Arc::new((0..nthreads + 1).map(|_| (AtomicUsize::new(usize::MAX), AtomicU64::new(0))).collect());
    let t0 = std::time::Instant::now();
    let out_path = req_arg(args, "--out").to_string();
    {
        let slots = slots.clone();
        let texts: Vec<String> = recs.iter().map(input_text).collect();
        let out_path = out_path.clone();
        std::thread::spawn(move || loop {
            std::thread::sleep(std::time::Duration::from_millis(500));
            let now = t0.elapsed().as_millis() as u64;
            for (idx, start) in slots.iter() {
                let i = idx.load(Ordering::SeqCst);
                let s = start.load(Ordering::SeqCst);
                if i != usize::MAX && now.saturating_sub(s) > limit_ms {
                    let rec = json!({"input": crate::sym::str_to_syms(&texts[i]), "timeout": true, "calls": [], "evks": [],
                                     "cfgs": 0, "src": "watchdog"});
                    std::fs::write(format!("{out_path}.timeout"), rec.to_string() + "\n").unwrap();
                    eprintln!("watchdog: input {i} did not return within {limit_ms} ms");
                    std::process::exit(3);
                }
            }
        });
    }

    let out: Vec<Value> = recs
        .par_iter()
        .enumerate()
        .map(|(i, r)| {
            let slot = &slots[rayon::current_thread_index().unwrap_or(nthreads)];
            slot.1.store(t0.elapsed().as_millis() as u64, Ordering::SeqCst);
            slot.0.store(i, Ordering::SeqCst);
            let text = input_text(r);
            let mut calls = Vec::new();
            let mut ncfg = 0;
            for (k, (_e, _c, parser)) in parsers.iter().enumerate() {
                let mut progs: Vec<&Vec<String>> = programs.iter().take(fixed).collect();
                if programs.len() > fixed {
                    for j in 0..rotate {
                        let span = programs.len() - fixed;
                        progs.push(&programs[fixed + (i * 7 + k * 3 + j * 11) % span]);
                    }
                }
                for p in progs {
                    ncfg += 1;
                    let c = run_program(&text, parser, p);
                    // keep the record small: only programs with a call that did not return are listed in
                    // full, the others are summarised by the first (standard) program of the first config
                    let failed = c.iter().any(|x| x["st"] != "ret");
                    if failed || calls.is_empty() {
                        calls.push((failed, c));
                    }
                }
            }
            let evks: Vec<Value> = exts
                .iter()
                .map(|e| match guarded(|| {
                    cooklang::parser::PullParser::new(&text, ext_from_bits(*e)).map(|ev| event_kind(&ev)).collect::<Vec<_>>()
                }) {
                    Ok(v) => json!(v),
                    Err(_) => json!([]), // the panic itself is reported by the "events" call
                })
                .collect();
            slot.0.store(usize::MAX, Ordering::SeqCst);
            // one record per failed program, or a single one when everything returned
            let mut outs = Vec::new();
            let any_failed = calls.iter().any(|(f, _)| *f);
            for (f, c) in calls {
                if f || !any_failed {
                    outs.push(json!({"input": crate::sym::str_to_syms(&text), "timeout": false, "calls": c, "evks": evks,
                                     "cfgs": ncfg, "src": r.get("src").cloned().unwrap_or(json!(""))}));
                }
            }
            outs
        })
        .flatten()
        .collect();
    write_ndjson(&out_path, &out);
    println!("calls: {} records from {} inputs x {} configurations", out.len(), recs.len(), parsers.len());
}
