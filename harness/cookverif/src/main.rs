mod aisle;
mod builder;
mod calls;
mod convert;
mod docs;
mod events;
mod ffi;
mod project;
mod scale;
mod serde_rt;
mod shared;
mod stdmeta;
mod subsets;
mod variants;
mod fraction;
mod group;
mod list;
mod meta;
mod prec;
mod sym;
mod util;

fn main() {
    let args: Vec<String> = std::env::args().skip(1).collect();
    sym::self_check();
    util::quiet_panics();
    let cmd = args.first().map(|s| s.as_str()).unwrap_or("");
    match cmd {
        "aisle" => aisle::main(&args[1..]),
        "spans" => prec::main_spans(&args[1..]),
        "calls" => calls::main(&args[1..]),
        "docs" => docs::main(&args[1..]),
        "events" => events::main(&args[1..]),
        "subsets" => subsets::main(&args[1..]),
        "meta" => meta::main(&args[1..]),
        "shared" => shared::main(&args[1..]),
        "group" => group::main(&args[1..]),
        "scale" => scale::main(&args[1..]),
        "ffi" => ffi::main(&args[1..]),
        "serde" => serde_rt::main(&args[1..]),
        "convert" => convert::main(&args[1..]),
        "list" => list::main(&args[1..]),
        "builder" => builder::main(&args[1..]),
        "stdmeta" => stdmeta::main(&args[1..]),
        "variants" => variants::main(&args[1..]),
        "fraction" => fraction::main(&args[1..]),
        "selfcheck" => println!("ok"),
        _ => {
            eprintln!("unknown command {cmd:?}");
            std::process::exit(2);
        }
    }
}
