//! C18 recorder: histories of calls on ONE shared CooklangParser, from several threads released
//! by a barrier (first, so that the process-wide lazy table is raced) and sequentially, with the
//! sequential baseline of every (operation, input) computed afterwards on fresh parsers.
use crate::prec::*;
use crate::util::*;
use cooklang::{CooklangParser, ParseOptions};
use rand::{Rng, SeedableRng};
use serde_json::{json, Value};
use std::hash::{Hash, Hasher};
use std::sync::{Arc, Barrier};

fn h(s: &str) -> String {
    let mut x = std::collections::hash_map::DefaultHasher::new();
    s.hash(&mut x);
    format!("{:016x}", x.finish())
}

fn report_text(r: &cooklang::error::SourceReport) -> String {
    let mut s = String::new();
    for d in r.iter() {
        s.push_str(&format!("{:?}|{:?}|{}|{:?}|{:?};", d.severity, d.stage, d.message, d.labels, d.hints));
        // the chain of causes is part of what a caller can read (Error::source, the rendered report)
        let mut src = std::error::Error::source(d);
        while let Some(e) = src {
            s.push_str(&format!("<-{e}"));
            src = e.source();
        }
    }
    s
}

pub const OPS: [&str; 5] = ["parse", "meta", "validated", "scale", "accessors"];

thread_local! {
    /// a read buffer reused for every call of the thread: successive inputs sit at the same address (as they do in a
    /// server that reads requests into one buffer), so that nothing may be remembered by address
    static BUF: std::cell::RefCell<String> = std::cell::RefCell::new(String::with_capacity(1 << 16));
}

/// one call; the result image covers the recipe and the ordered diagnostics
pub fn call(parser: &CooklangParser, op: &str, text: &str) -> String {
    BUF.with(|b| {
        let mut b = b.borrow_mut();
        b.clear();
        b.push_str(text);
        call_on(parser, op, &b)
    })
}

fn call_on(parser: &CooklangParser, op: &str, text: &str) -> String {
    let r = guarded(|| match op {
        "parse" => {
            let r = parser.parse(text);
            format!("{}#{}", r.output().map(|o| serde_json::to_string(o).unwrap_or_default()).unwrap_or_default(), report_text(r.report()))
        }
        "meta" => {
            let r = parser.parse_metadata(text);
            format!("{}#{}", r.output().map(|o| serde_json::to_string(o).unwrap_or_default()).unwrap_or_default(), report_text(r.report()))
        }
        "validated" => {
            let opts = ParseOptions {
                recipe_ref_check: None,
                metadata_validator: Some(Box::new(|k, _v, action| {
                    if k.as_str() == Some("title") || k.as_str() == Some("k") {
                        action.include(false);
                    }
                    cooklang::analysis::CheckResult::Ok
                })),
            };
            let r = parser.parse_with_options(text, opts);
            format!("{}#{}", r.output().map(|o| serde_json::to_string(o).unwrap_or_default()).unwrap_or_default(), report_text(r.report()))
        }
        "scale" => {
            let r = parser.parse(text);
            let rep = report_text(r.report());
            match r.into_output() {
                Some(o) => {
                    let mut s = o.scale(1.7, parser.converter());
                    let _ = s.convert(cooklang::convert::System::Imperial, parser.converter());
                    let g: Vec<String> = s.group_ingredients(parser.converter()).iter().map(|g| g.quantity.to_string()).collect();
                    format!("{}#{}#{:?}", serde_json::to_string(&s).unwrap_or_default(), rep, g)
                }
                None => format!("none#{rep}"),
            }
        }
        // the public readers of the standard metadata, called on a parsed recipe: between two parses of a history they must
        // leave nothing behind either
        "accessors" => {
            use cooklang::metadata::CooklangValueExt;
            let conv = parser.converter();
            let r = parser.parse(text);
            let rep = report_text(r.report());
            match r.output() {
                Some(o) => {
                    let m = &o.metadata;
                    let mut s = format!("{:?}|{:?}|{:?}|{:?}|{:?}|{:?}|{:?}", m.title(), m.tags(), m.author().map(|a| (a.name().map(str::to_string), a.url().map(str::to_string))),
                                        m.source().map(|a| (a.name().map(str::to_string), a.url().map(str::to_string))), m.time(conv), m.servings(), m.locale());
                    for (_, v) in m.map.iter() {
                        s.push_str(&format!(";{:?}|{:?}|{:?}|{:?}", v.as_minutes(conv), v.as_time(conv).map(|t| t.total()), v.as_servings(), v.as_tags()));
                    }
                    format!("{s}#{rep}")
                }
                None => format!("none#{rep}"),
            }
        }
        _ => unreachable!(),
    });
    match r {
        Ok(s) => h(&s),
        Err(p) => format!("panic:{}", panic_signature(&p)),
    }
}

/// `shared --in inputs.ndjson --out trace.ndjson --threads N --calls M [--ext all --conv b]`
pub fn main(args: &[String]) {
    let inputs: Vec<String> = read_ndjson(req_arg(args, "--in")).iter().map(input_text).collect();
    let nthreads: usize = arg(args, "--threads").unwrap_or("8").parse().unwrap();
    let ncalls: usize = arg(args, "--calls").unwrap_or("200").parse().unwrap();
    let ext = parse_ext_list(arg(args, "--ext").unwrap_or("all"))[0];
    let conv = arg(args, "--conv").unwrap_or("b");
    let seed: u64 = std::env::var("VERIF_SEED").ok().and_then(|s| s.parse().ok()).unwrap_or(1);
    // `--one op:i`: this process makes exactly one call on a fresh parser and prints its hash
    if let Some(one) = arg(args, "--one") {
        let (op, i) = one.split_once(':').expect("--one op:index");
        let i: usize = i.parse().unwrap();
        let fresh = CooklangParser::new(ext_from_bits(ext), converter(conv));
        println!("{}", json!({"op": op, "input": i, "hash": call(&fresh, op, &inputs[i])}));
        return;
    }
    let parser = Arc::new(CooklangParser::new(ext_from_bits(ext), converter(conv)));
    let inputs = Arc::new(inputs);

    // (1) threads sharing &parser, released together
    // `--cold i,j,..`: the inputs of the cold-start rounds (round r takes the (r mod n)-th)
    let cold_list: Vec<usize> = arg(args, "--cold").map(|c| c.split(',').filter_map(|x| x.parse().ok()).collect()).unwrap_or_default();
    let cold: Option<usize> = cold_list.first().copied();
    let barrier = Arc::new(Barrier::new(nthreads));
    let mut handles = Vec::new();
    for t in 0..nthreads {
        let (parser, inputs, barrier) = (parser.clone(), inputs.clone(), barrier.clone());
        handles.push(std::thread::spawn(move || {
            crate::util::quiet_panics();
            let mut rng = rand::rngs::StdRng::seed_from_u64(seed * 1000 + t as u64);
            let mut evs = Vec::new();
            barrier.wait();
            for seq in 0..ncalls {
                // the first calls of every thread go for whatever is built lazily: the fraction table (scale), and - when
                // the driver names a "cold" input - the same prose on the brand-new parser from all threads at once
                let op = if seq == 0 && cold.is_some() { "parse" } else if seq < 2 { "scale" } else { OPS[rng.gen_range(0..OPS.len())] };
                let i = match (seq, cold) {
                    (0, Some(c)) => c,
                    _ => rng.gen_range(0..inputs.len()),
                };
                evs.push((t, seq, op, i, None));
                let hash = call(&parser, op, &inputs[i]);
                evs.push((t, seq, op, i, Some(hash)));
            }
            evs
        }));
    }
    let mut events: Vec<(usize, usize, &str, usize, Option<String>)> = Vec::new();
    for hdl in handles {
        events.extend(hdl.join().expect("worker thread"));
    }
    // (2) a sequential history on the same parser: repeats, ABA, everything after everything
    let mut rng = rand::rngs::StdRng::seed_from_u64(seed);
    let t = nthreads; // thread id of the main thread
    let mut seq = 0;
    for round in 0..3 {
        for i in 0..inputs.len() {
            let j = if round == 1 { inputs.len() - 1 - i } else { i };
            for op in OPS {
                if round == 2 && rng.gen_bool(0.5) {
                    continue;
                }
                events.push((t, seq, op, j, None));
                let hash = call(&parser, op, &inputs[j]);
                events.push((t, seq, op, j, Some(hash)));
                seq += 1;
            }
        }
    }
    // (3) baselines: a fresh parser for every call - computed here, or (--base file) taken from pristine processes,
    // one per (operation, input), so that process-wide state cannot leak into the baseline either
    let mut base = std::collections::HashMap::new();
    if let Some(bf) = arg(args, "--base") {
        for r in read_ndjson(bf) {
            let op = OPS.iter().copied().find(|o| Some(*o) == r["op"].as_str()).expect("op");
            base.insert((op, r["input"].as_u64().unwrap() as usize), r["hash"].as_str().unwrap().to_string());
        }
    } else {
        for op in OPS {
            for (i, text) in inputs.iter().enumerate() {
                let fresh = CooklangParser::new(ext_from_bits(ext), converter(conv));
                base.insert((op, i), call(&fresh, op, text));
            }
        }
    }
    let mut out = vec![json!({"ev": "Reset", "t": 0, "seq": 0, "op": "", "input": 0, "hash": "", "base": ""})];
    // (4) cold starts: a brand-new parser per round, all threads released together on the same input, one call each.
    // Whatever the parser or its converter builds lazily on first use is raced for in every round.
    if cold.is_some() {
        let rounds: usize = arg(args, "--cold-rounds").and_then(|x| x.parse().ok()).unwrap_or(40);
        for round in 0..rounds {
            let c = cold_list[round % cold_list.len()];
            let fresh = Arc::new(CooklangParser::new(ext_from_bits(ext), converter(conv)));
            let barrier = Arc::new(Barrier::new(nthreads));
            let hs: Vec<_> = (0..nthreads)
                .map(|t| {
                    let (fresh, inputs, barrier) = (fresh.clone(), inputs.clone(), barrier.clone());
                    std::thread::spawn(move || {
                        crate::util::quiet_panics();
                        barrier.wait();
                        (t, call(&fresh, "parse", &inputs[c]))
                    })
                })
                .collect();
            out.push(json!({"ev": "Reset", "t": 0, "seq": round, "op": "", "input": 0, "hash": "", "base": ""}));
            for hdl in hs {
                let (t, hh) = hdl.join().expect("cold thread");
                out.push(json!({"ev": "Begin", "t": t, "seq": 0, "op": "parse", "input": c, "hash": "", "base": base[&("parse", c)]}));
                out.push(json!({"ev": "End", "t": t, "seq": 0, "op": "parse", "input": c, "hash": hh, "base": base[&("parse", c)]}));
            }
        }
        out.push(json!({"ev": "Reset", "t": 0, "seq": 0, "op": "", "input": 0, "hash": "", "base": ""}));
    }
    for (t, seq, op, i, hash) in events {
        out.push(match hash {
            None => json!({"ev": "Begin", "t": t, "seq": seq, "op": op, "input": i, "hash": "", "base": base[&(op, i)]}),
            Some(hh) => json!({"ev": "End", "t": t, "seq": seq, "op": op, "input": i, "hash": hh, "base": base[&(op, i)]}),
        });
    }
    write_ndjson(req_arg(args, "--out"), &out);
    println!("shared: {} events, {} threads, {} inputs", out.len(), nthreads, inputs.len());
}
