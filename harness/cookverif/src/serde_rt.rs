//! C15 recorder: JSON round trips of parsed, scaled and converted recipes, and which model
//! constructors each recipe exercised.
use crate::prec::*;
use crate::project;
use crate::util::*;
use cooklang::convert::System;
use cooklang::model::*;
use cooklang::quantity::{Number, ScalableValue, Value as QValue};
use cooklang::{CooklangParser, ScalableRecipe, ScaledRecipe};
use rayon::prelude::*;
use serde_json::{json, Value};
use std::collections::BTreeSet;

fn number_variants(n: &Number, out: &mut BTreeSet<&'static str>) {
    match n {
        Number::Regular(_) => out.insert("Number::Regular"),
        Number::Fraction { err, .. } => {
            if *err != 0.0 {
                out.insert("Number::Fraction(err)");
            }
            out.insert("Number::Fraction")
        }
    };
}
fn value_variants(v: &QValue, out: &mut BTreeSet<&'static str>) {
    match v {
        QValue::Number(n) => {
            out.insert("Value::Number");
            number_variants(n, out)
        }
        QValue::Range { start, end } => {
            out.insert("Value::Range");
            number_variants(start, out);
            number_variants(end, out)
        }
        QValue::Text(_) => {
            out.insert("Value::Text");
        }
    }
}
fn scalable_variants(r: &ScalableRecipe, out: &mut BTreeSet<&'static str>) {
    for i in &r.ingredients {
        if let Some(q) = &i.quantity {
            match q.value() {
                ScalableValue::Fixed(v) => {
                    out.insert("ScalableValue::Fixed");
                    value_variants(v, out)
                }
                ScalableValue::Linear(v) => {
                    out.insert("ScalableValue::Linear");
                    value_variants(v, out)
                }
            }
        }
        if i.reference.is_some() {
            out.insert("RecipeReference");
            if i.reference.as_ref().unwrap().components.is_empty() {
                out.insert("RecipeReference(no components)");
            }
        }
        match i.relation.references_to() {
            Some((_, IngredientReferenceTarget::Ingredient)) => out.insert("Relation::Reference(ingredient)"),
            Some((_, IngredientReferenceTarget::Step)) => out.insert("Relation::Reference(step)"),
            Some((_, IngredientReferenceTarget::Section)) => out.insert("Relation::Reference(section)"),
            None => out.insert("Relation::Definition"),
        };
        if !i.modifiers().is_empty() {
            out.insert("Modifiers(non-empty)");
        }
        if i.alias.is_some() {
            out.insert("alias");
        }
        if i.note.is_some() {
            out.insert("note");
        }
    }
    for c in &r.cookware {
        if matches!(c.relation, ComponentRelation::Reference { .. }) {
            out.insert("ComponentRelation::Reference");
        }
    }
    if !r.timers.is_empty() {
        out.insert("Timer");
    }
    if !r.inline_quantities.is_empty() {
        out.insert("InlineQuantity");
    }
    for s in &r.sections {
        if s.name.is_some() {
            out.insert("Section(name)");
        }
        for c in &s.content {
            match c {
                Content::Step(_) => out.insert("Content::Step"),
                Content::Text(_) => out.insert("Content::Text"),
            };
        }
    }
    for (_, v) in r.metadata.map.iter() {
        match v {
            serde_yaml::Value::Sequence(_) => out.insert("Metadata(sequence)"),
            serde_yaml::Value::Mapping(_) => out.insert("Metadata(mapping)"),
            serde_yaml::Value::Number(_) => out.insert("Metadata(number)"),
            serde_yaml::Value::Bool(_) => out.insert("Metadata(bool)"),
            serde_yaml::Value::Null => out.insert("Metadata(null)"),
            serde_yaml::Value::String(_) => out.insert("Metadata(string)"),
            serde_yaml::Value::Tagged(_) => out.insert("Metadata(tagged)"),
        };
    }
    if r.servings().is_some() {
        out.insert("Servings");
    }
}

fn scaled_fields_equal(a: &ScaledRecipe, b: &ScaledRecipe) -> bool {
    a.metadata == b.metadata && a.sections == b.sections && a.ingredients == b.ingredients && a.cookware == b.cookware && a.timers == b.timers
        && a.inline_quantities == b.inline_quantities
}

fn rt_scalable(r: &ScalableRecipe) -> Value {
    let s1 = match serde_json::to_string(r) {
        Ok(s) => s,
        Err(e) => return json!({"ser": false, "why": e.to_string(), "equal": false, "identical": false}),
    };
    match serde_json::from_str::<ScalableRecipe>(&s1) {
        Err(e) => json!({"ser": true, "de": false, "why": e.to_string().chars().take(160).collect::<String>(), "equal": false, "identical": false}),
        Ok(back) => {
            let s2 = serde_json::to_string(&back).unwrap_or_default();
            json!({"ser": true, "de": true, "equal": &back == r && back.servings() == r.servings(), "identical": s1 == s2})
        }
    }
}
fn rt_scaled(r: &ScaledRecipe, out: &mut BTreeSet<&'static str>) -> Value {
    for i in &r.ingredients {
        if let Some(q) = &i.quantity {
            value_variants(q.value(), out);
        }
    }
    if let Some(d) = r.scaled_data() {
        out.insert("Scaled::Scaled");
        for o in d.ingredients.iter().chain(&d.cookware).chain(&d.timers) {
            out.insert(match o {
                cooklang::scale::ScaleOutcome::Scaled => "ScaleOutcome::Scaled",
                cooklang::scale::ScaleOutcome::Fixed => "ScaleOutcome::Fixed",
                cooklang::scale::ScaleOutcome::NoQuantity => "ScaleOutcome::NoQuantity",
                cooklang::scale::ScaleOutcome::Error(_) => "ScaleOutcome::Error",
            });
        }
    } else {
        out.insert("Scaled::DefaultScaling");
    }
    let s1 = match serde_json::to_string(r) {
        Ok(s) => s,
        Err(e) => return json!({"ser": false, "why": e.to_string(), "equal": false, "identical": false}),
    };
    match serde_json::from_str::<ScaledRecipe>(&s1) {
        Err(e) => json!({"ser": true, "de": false, "why": e.to_string().chars().take(160).collect::<String>(), "equal": false, "identical": false}),
        Ok(back) => {
            let s2 = serde_json::to_string(&back).unwrap_or_default();
            json!({"ser": true, "de": true, "equal": scaled_fields_equal(&back, r), "identical": s1 == s2})
        }
    }
}

fn finite(r: &ScalableRecipe) -> bool {
    let s = serde_json::to_string(r).unwrap_or_default();
    !s.contains("null") || !r.ingredients.iter().any(|i| i.quantity.as_ref().is_some_and(|q| match q.value() {
        ScalableValue::Fixed(v) | ScalableValue::Linear(v) => match v {
            QValue::Number(n) => !n.value().is_finite(),
            QValue::Range { start, end } => !start.value().is_finite() || !end.value().is_finite(),
            QValue::Text(_) => false,
        },
    }))
}

/// `serde --in docs.ndjson --out obs.ndjson --factors 0.5,3`
pub fn main(args: &[String]) {
    let recs = read_ndjson(req_arg(args, "--in"));
    let factors: Vec<f64> = arg(args, "--factors").unwrap_or("0.5,3").split(',').map(|x| x.parse().unwrap()).collect();
    let results: Vec<(Value, BTreeSet<&'static str>)> = recs
        .par_iter()
        .map(|r| {
            let text = input_text(r);
            let bits = match r.get("extbits").and_then(|b| b.as_u64()) {
                Some(b) => b as u32,
                None => project::ext_bits_from_names(&r["ext"]),
            };
            let conv_name = r.get("conv").and_then(|c| c.as_str()).unwrap_or("bundled");
            let conv = converter(conv_name);
            let parser = CooklangParser::new(ext_from_bits(bits), conv.clone());
            let mut seen = BTreeSet::new();
            let obs = guarded(|| {
                let Some(orig) = parser.parse(&text).into_output() else { return json!({"st": "nooutput"}) };
                if !finite(&orig) {
                    return json!({"st": "nonfinite"});
                }
                scalable_variants(&orig, &mut seen);
                let mut cases = vec![json!({"what": "parsed", "rt": rt_scalable(&orig)})];
                let d = parser.parse(&text).into_output().unwrap().default_scale();
                cases.push(json!({"what": "default_scale", "rt": rt_scaled(&d, &mut seen)}));
                for f in &factors {
                    let mut s = parser.parse(&text).into_output().unwrap().scale(*f, &conv);
                    cases.push(json!({"what": format!("scale {f}"), "rt": rt_scaled(&s, &mut seen)}));
                    for sys in [System::Imperial, System::Metric] {
                        let _ = s.convert(sys, &conv);
                        cases.push(json!({"what": format!("scale {f} convert {sys}"), "rt": rt_scaled(&s, &mut seen)}));
                    }
                }
                json!({"st": "ok", "cases": cases})
            })
            .unwrap_or_else(|p| json!({"st": "panic", "sig": panic_signature(&p)}));
            (json!({"kind_rec": "recipe", "text": text, "extbits": bits, "conv": conv_name, "obs": obs, "tag": r.get("tag").cloned().unwrap_or(json!(""))}), seen)
        })
        .collect();
    let mut all = BTreeSet::new();
    let mut out = Vec::new();
    for (v, s) in results {
        all.extend(s);
        out.push(v);
    }
    out.push(json!({"kind_rec": "coverage", "variants": all.into_iter().collect::<Vec<_>>()}));
    write_ndjson(req_arg(args, "--out"), &out);
    println!("serde: {} records", out.len());
}
