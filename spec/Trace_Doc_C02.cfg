CONSTANTS
  Ext = {}
  Conv = "bundled"
  Clauses = {"Returns", "ParsesWithoutErrors", "ReadingAsSpecified", "ValidityAsPredicted", "PredictedDiagnostics"}
INIT TInit
NEXT TNext
CHECK_DEADLOCK FALSE
