----------------------------- MODULE Trace_Builder -----------------------------
(* Trace specification for C16: one record per sequence of layers: what          *)
(* CookBuilder predicts (pred) and what the real ConverterBuilder did (obs).     *)
EXTENDS Naturals, Sequences, FiniteSets, TLC, Json, IOUtils
VARIABLES l
Recs == ndJsonDeserialize(IOEnv.TRACE)
Range(f) == {f[i] : i \in DOMAIN f}
Keys(u) == Range(u.names) \cup Range(u.symbols) \cup Range(u.aliases)
IdOf(r, k) == LET es == {e \in Range(r.obs.lookups) : e.k = k} IN IF es = {} THEN 0 ELSE (CHOOSE e \in es : TRUE).id
BothBuilt(r) == r.kind = "layers" /\ r.obs.outcome = "built" /\ r.pred.outcome = "built"
Increasing(lst) == \A i \in 1..(Len(lst) - 1) : lst[i].ratio <= lst[i + 1].ratio
Quantities == {"volume", "mass", "length", "temperature", "time"}
Clauses == {"NeverPanics", "BuiltOrRejectedAsSpecified", "EveryKeyOfAUnitResolvesToIt", "NoSharedKey", "DeclaredKeysResolve",
            "BestListsOwnQuantityIncreasing", "UnitsAndPrecedenceAsSpecified", "BestListsAsSpecified", "DefaultEqualsShipped"}
Holds(c, r) ==
  CASE c = "NeverPanics" -> r.obs.outcome # "panic"
    [] c = "BuiltOrRejectedAsSpecified" -> (r.kind = "layers" /\ r.obs.outcome \in {"built", "rejected"}) => r.obs.outcome = r.pred.outcome
    [] c = "EveryKeyOfAUnitResolvesToIt" -> (r.kind = "layers" /\ r.obs.outcome = "built") =>
            \A i \in DOMAIN r.obs.units : \A k \in Keys(r.obs.units[i]) : IdOf(r, k) = i
    [] c = "NoSharedKey" -> (r.kind = "layers" /\ r.obs.outcome = "built") =>
            \A i, j \in DOMAIN r.obs.units : i # j => Keys(r.obs.units[i]) \cap Keys(r.obs.units[j]) = {}
    [] c = "DeclaredKeysResolve" -> BothBuilt(r) => \A e \in Range(r.pred.index) : IdOf(r, e.k) = e.id
    [] c = "BestListsOwnQuantityIncreasing" -> (r.kind = "layers" /\ r.obs.outcome = "built") =>
            \A q \in Quantities : \A s \in DOMAIN r.obs.best[q] : LET lst == r.obs.best[q][s] IN
               Increasing(lst) /\ \A i \in DOMAIN lst : lst[i].q = q /\ lst[i].id # 0
    [] c = "UnitsAndPrecedenceAsSpecified" -> BothBuilt(r) => r.obs.units = r.pred.units
    [] c = "BestListsAsSpecified" -> BothBuilt(r) => \A q \in Quantities :
            LET want == UNION {{IdOf(r, n) : n \in Range(r.pred.best[q][s])} : s \in DOMAIN r.pred.best[q]}
                got == UNION {{x.id : x \in Range(r.obs.best[q][s])} : s \in DOMAIN r.obs.best[q]}
            IN want = got
    [] c = "DefaultEqualsShipped" -> r.kind = "default" => r.obs.outcome = "built"
Details == {"RejectionReason"}
Agrees(d, r) == CASE d = "RejectionReason" -> (r.kind = "layers" /\ r.obs.outcome = "rejected" /\ r.pred.outcome = "rejected") => r.obs.reason = r.pred.reason
Failed(r) == {c \in Clauses : ~Holds(c, r)}
Drift(r) == {d \in Details : ~Agrees(d, r)}
TInit == l = 1
TNext == /\ l <= Len(Recs)
         /\ LET r == Recs[l] f == Failed(r) d == Drift(r) IN
              /\ IF f = {} THEN TRUE ELSE PrintT(<<"BAD", l, f>>)
              /\ IF d = {} THEN TRUE ELSE PrintT(<<"NOTE", l, d>>)
         /\ IF l = Len(Recs) THEN PrintT(<<"CONSUMED", l>>) ELSE TRUE
         /\ l' = l + 1
=============================================================================
