INIT Init
NEXT Next
INVARIANTS InvBack InvPreserve InvBestInList Emit StdEmit
CHECK_DEADLOCK FALSE
