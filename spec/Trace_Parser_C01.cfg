CONSTANTS
  Clauses = {"Returns", "RecipeReadAsSpecified"}
INIT TInit
NEXT TNext
CHECK_DEADLOCK FALSE
