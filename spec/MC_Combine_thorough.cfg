CONSTANTS
  MaxLen = 4
  MaxSel = 4
INIT Init
NEXT Next
INVARIANTS InvOrderIndependent Emit
CHECK_DEADLOCK FALSE
