------------------------------ MODULE CookLexer ------------------------------
(***************************************************************************)
(* M1: the lexer (src/lexer/mod.rs: Cursor::advance_token, and the span    *)
(* accumulation of src/parser/token_stream.rs) as a state machine over a   *)
(* sequence of SYMBOLS (one symbol = one character, with a UTF-8 width).   *)
(* One NextToken step per token; the case analysis follows advance_token   *)
(* arm by arm.  Token spans are byte spans.                                *)
(***************************************************************************)
EXTENDS Naturals, Sequences, FiniteSets, TLC

VARIABLES input,     \* sequence of symbols
          pos,       \* index (1-based) of the next symbol to lex; 0 while the input is being written
          toks       \* tokens so far: [k |-> kind, s |-> start byte, e |-> end byte]
lexvars == <<input, pos, toks>>

(* ---- character classes ----------------------------------------------------- *)
Markers   == {"@", "#", "~", "{", "}", "(", ")", "%", "|", "=", ">", "-", ":", ".", "/", "*", "&", "?", "+"}
\* (the model-checking alphabets draw a few members of each class; the classes are complete for ASCII so that
\*  documents written by CookDoc and the repository's recipes can be lexed by the specification too)
Lower     == {"a", "b", "c", "d", "e", "f", "g", "h", "i", "j", "k", "l", "m", "n", "o", "p", "q", "r", "s", "t", "u", "v", "w", "x", "y", "z"}
Upper     == {"A", "B", "C", "D", "E", "F", "G", "H", "I", "J", "K", "L", "M", "N", "O", "P", "Q", "R", "S", "T", "U", "V", "W", "X", "Y", "Z"}
Letters   == Lower \cup Upper \cup {"L2", "E2", "DEG", "L3", "L4"}     \* char::is_alphabetic (L3, L4: any letter of that UTF-8 width)
Symbolic  == {"E4", "$", "<", "^", "`"}                      \* not alphabetic, not punctuation, not blank: word characters
Digits    == {"0", "1", "2", "3", "4", "5", "6", "7", "8", "9"}
Blanks    == {" ", "TAB", "W2", "W3", "NBSP", "TSP"}         \* is_separator_space or tab
Puncts    == {"[", "]", ",", "P3", "!", "QUOTE", "'", ";", "_"}   \* char::is_punctuation and no arm of its own ("\" has one: BS)
Width(c)  == CASE c \in {"L2", "E2", "W2", "NBSP", "DEG"} -> 2
               [] c \in {"W3", "TSP", "P3", "L3"}         -> 3
               [] c \in {"E4", "L4"}                      -> 4
               [] OTHER                                    -> 1
\* is_word_char: alphabetic, or anything that is not blank, newline, digit, '.', marker, punctuation
WordChar(c) == c \in Letters \cup Symbolic
KindOfMarker(c) == CASE c = "@" -> "At" [] c = "#" -> "Hash" [] c = "~" -> "Tilde" [] c = "{" -> "OpenBrace"
                     [] c = "}" -> "CloseBrace" [] c = "(" -> "OpenParen" [] c = ")" -> "CloseParen"
                     [] c = "%" -> "Percent" [] c = "|" -> "Or" [] c = "=" -> "Eq" [] c = ":" -> "Colon"
                     [] c = "." -> "Dot" [] c = "/" -> "Slash" [] c = "*" -> "Star" [] c = "&" -> "And"
                     [] c = "?" -> "Question" [] c = "+" -> "Plus" [] c = "-" -> "Minus" [] c = ">" -> "TextStep"

RECURSIVE OffR(_, _)
OffR(inp, i) == IF i <= 1 THEN 0 ELSE OffR(inp, i - 1) + Width(inp[i - 1])
Off(inp, i)  == OffR(inp, i)              \* byte offset of symbol index i; Off(inp, Len+1) = byte length
Bytes(inp)   == Off(inp, Len(inp) + 1)
At(inp, i)   == IF i <= Len(inp) THEN inp[i] ELSE "EOF"

RECURSIVE While(_, _, _)
\* first index >= i whose symbol is not in S (eat_while)
While(inp, i, S) == IF i <= Len(inp) /\ inp[i] \in S THEN While(inp, i + 1, S) ELSE i
RECURSIVE UntilLF(_, _)
UntilLF(inp, i) == IF i <= Len(inp) /\ inp[i] # "LF" THEN UntilLF(inp, i + 1) ELSE i
RECURSIVE BlockEnd(_, _)
\* block comment body: consume until "-" followed by "]" (both consumed) or the end
BlockEnd(inp, i) == IF i > Len(inp) THEN i
                    ELSE IF inp[i] = "-" /\ At(inp, i + 1) = "]" THEN i + 2 ELSE BlockEnd(inp, i + 1)

\* one call of advance_token at symbol index i (i <= Len(inp)): kind and the index after the token
Lex(inp, i) ==
  LET c == inp[i]  n == At(inp, i + 1) IN
  CASE c = "BS"                 -> [k |-> "Escaped", j |-> IF i + 1 <= Len(inp) THEN i + 2 ELSE i + 1]
    [] c = ">" /\ n = ">"       -> [k |-> "MetadataStart", j |-> i + 2]
    [] c = "-" /\ n = "-"       -> [k |-> "LineComment", j |-> UntilLF(inp, i + 1)]
    [] c = "[" /\ n = "-"       -> [k |-> "BlockComment", j |-> BlockEnd(inp, i + 2)]
    [] c = "LF"                 -> [k |-> "Newline", j |-> i + 1]
    [] c = "CR" /\ n = "LF"     -> [k |-> "Newline", j |-> i + 2]
    [] c \in Digits             -> LET j == While(inp, i + 1, Digits)
                                   IN [k |-> IF c = "0" /\ j - i > 1 THEN "ZeroInt" ELSE "Int", j |-> j]
    [] c \in Markers /\ ~(c = ">" /\ n = ">") /\ ~(c = "-" /\ n = "-")
                                -> [k |-> KindOfMarker(c), j |-> i + 1]     \* ">" alone, "-" alone included
    [] c \in Blanks             -> [k |-> "Whitespace", j |-> While(inp, i + 1, Blanks)]
    [] c \in Puncts /\ ~(c = "[" /\ n = "-")
                                -> [k |-> "Punctuation", j |-> i + 1]       \* "[" not followed by "-", "]", ","
    [] OTHER                    -> [k |-> "Word", j |-> While(inp, i + 1, Letters \cup Symbolic)]
                                   \* a lone CR starts a word too (it is no blank and no punctuation)

RECURSIVE ToksFrom(_, _)
ToksFrom(inp, i) == IF i > Len(inp) THEN <<>>
                    ELSE LET t == Lex(inp, i)
                         IN << [k |-> t.k, s |-> Off(inp, i), e |-> Off(inp, t.j)] >> \o ToksFrom(inp, t.j)
Tokens(inp) == ToksFrom(inp, 1)              \* the whole token stream as a function

(* ---- the machine -------------------------------------------------------------- *)
NextToken == /\ pos >= 1 /\ pos <= Len(input)
             /\ LET t == Lex(input, pos)
                IN /\ toks' = Append(toks, [k |-> t.k, s |-> Off(input, pos), e |-> Off(input, t.j)])
                   /\ pos' = t.j
             /\ UNCHANGED input
LexDone == pos = Len(input) + 1

(* ---- properties of a token sequence (C04: tokens tile the input) ------------------ *)
Tiles(ts, base, len) ==
  /\ ts # <<>> => (ts[1].s = base /\ ts[Len(ts)].e = len)
  /\ ts = <<>> => base = len
  /\ \A i \in 1..(Len(ts) - 1) : ts[i].e = ts[i + 1].s
NonEmptyTokens(ts) == \A i \in DOMAIN ts : ts[i].s < ts[i].e

(* ---- invariants of the machine ------------------------------------------------------ *)
InvPrefixTiles == pos >= 1 => Tiles(toks, 0, Off(input, pos)) /\ NonEmptyTokens(toks)
InvProgress    == pos >= 1 => pos <= Len(input) + 1
InvFunctional  == LexDone => toks = Tokens(input)
\* CR LF is one newline token; comments are tokens of their own (C17 at model level)
InvNewline     == \A i \in DOMAIN toks : toks[i].k = "Newline" => toks[i].e - toks[i].s \in {1, 2}
=============================================================================
