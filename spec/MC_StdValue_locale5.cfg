CONSTANTS
  Conv = "bundled"
  MaxLen = 5
  Kind = "locale"
INIT Init
NEXT Next
INVARIANTS TypeOk Emit
CHECK_DEADLOCK FALSE
