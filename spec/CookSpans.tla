------------------------------ MODULE CookSpans ------------------------------
(***************************************************************************)
(* Source locations and content conservation (C04, C05) as predicates over *)
(* one recorded parser execution r:                                        *)
(*   r.input  symbols (one per character)      r.offs  byte offset of each *)
(*   character plus the byte length            r.len   byte length         *)
(*   r.toks   token stream (hook H1)           r.evs   span-bearing events *)
(*   r.spans  every nested span                r.frags text fragments      *)
(*   r.labels / r.rlabels  diagnostic labels   r.alnum indices of letters  *)
(*   and digits                                r.haserr  error event seen  *)
(* plus the documented front matter split and comment syntax, written here *)
(* independently of the implementation (the oracle of C05).                *)
(***************************************************************************)
EXTENDS Naturals, Sequences, FiniteSets, TLC

Blank == {" ", "TAB", "CR", "LF", "NBSP", "TSP", "W2", "W3", "U000B", "U000C"}
At(inp, i) == IF i >= 1 /\ i <= Len(inp) THEN inp[i] ELSE "EOF"

(* ---- the documented front matter: "---" fence as the FIRST line and a later fence line ---- *)
RECURSIVE NextLF(_, _)
NextLF(inp, i) == IF i > Len(inp) THEN Len(inp) + 1 ELSE IF inp[i] = "LF" THEN i ELSE NextLF(inp, i + 1)
RECURSIVE BackBlank(_, _, _)
BackBlank(inp, a, b) == IF b > a /\ inp[b - 1] \in Blank THEN BackBlank(inp, a, b - 1) ELSE b
\* line = [a, nl) where nl is the index of its LF (or Len+1)
IsFence(inp, a, nl) == LET b == BackBlank(inp, a, nl) IN b - a = 3 /\ inp[a] = "-" /\ inp[a + 1] = "-" /\ inp[a + 2] = "-"
RECURSIVE FenceFrom(_, _)
\* start index of the first fence line at or after line start a, or 0
FenceFrom(inp, a) == IF a > Len(inp) THEN 0
                     ELSE LET nl == NextLF(inp, a) IN IF IsFence(inp, a, nl) THEN a ELSE FenceFrom(inp, nl + 1)
\* [has, yaml |-> first index of the YAML text, fence2 |-> start of closing fence, cook |-> first index after it]
FrontMatter(inp) ==
  LET nl1 == NextLF(inp, 1) IN
  IF Len(inp) >= 3 /\ IsFence(inp, 1, nl1) /\ nl1 <= Len(inp)
  THEN LET f2 == FenceFrom(inp, nl1 + 1) IN
       IF f2 = 0 THEN [has |-> FALSE, yaml |-> 1, fence2 |-> 1, cook |-> 1]
       ELSE LET nl2 == NextLF(inp, f2) IN [has |-> TRUE, yaml |-> nl1 + 1, fence2 |-> f2,
                                           cook |-> IF nl2 > Len(inp) THEN Len(inp) + 1 ELSE nl2 + 1]
  ELSE [has |-> FALSE, yaml |-> 1, fence2 |-> 1, cook |-> 1]

(* ---- the documented comment syntax: `--` to end of line, `[-` to `-]` or the end, `\` escapes ---- *)
RECURSIVE UntilLF(_, _)
UntilLF(inp, i) == IF i <= Len(inp) /\ inp[i] # "LF" THEN UntilLF(inp, i + 1) ELSE i
RECURSIVE BlockEnd(_, _)
BlockEnd(inp, i) == IF i > Len(inp) THEN i ELSE IF inp[i] = "-" /\ At(inp, i + 1) = "]" THEN i + 2 ELSE BlockEnd(inp, i + 1)
RECURSIVE CommentScan(_, _, _)
\* set of character indices inside comments, scanning from index i
CommentScan(inp, i, acc) ==
  IF i > Len(inp) THEN acc
  ELSE IF inp[i] = "BS" THEN CommentScan(inp, i + 2, acc)
  ELSE IF inp[i] = "-" /\ At(inp, i + 1) = "-" THEN LET j == UntilLF(inp, i) IN CommentScan(inp, j, acc \cup (i..(j - 1)))
  ELSE IF inp[i] = "[" /\ At(inp, i + 1) = "-" THEN LET j == BlockEnd(inp, i + 2) IN CommentScan(inp, j, acc \cup (i..(j - 1)))
  ELSE CommentScan(inp, i + 1, acc)
InComment(inp) == CommentScan(inp, FrontMatter(inp).cook, {})

(* ---- spans ---------------------------------------------------------------------------------- *)
Bounds(r)      == {r.offs[i] : i \in DOMAIN r.offs}
SpanOk(r, B, x) == x.s <= x.e /\ x.e <= r.len /\ x.s \in B /\ x.e \in B
Idx(r, o)      == CHOOSE i \in DOMAIN r.offs : r.offs[i] = o
Slice(r, s, e) == SubSeq(r.input, Idx(r, s), Idx(r, e) - 1)
Range(f)       == {f[i] : i \in DOMAIN f}

TokensTile(r) == LET base == r.offs[FrontMatter(r.input).cook] ts == r.toks IN
  /\ ts # <<>> => (ts[1].s = base /\ ts[Len(ts)].e = r.len)
  /\ ts = <<>> => base = r.len
  /\ \A i \in 1..(Len(ts) - 1) : ts[i].e = ts[i + 1].s
  /\ \A i \in DOMAIN ts : ts[i].s < ts[i].e
TokensOnBoundaries(r) == LET B == Bounds(r) IN \A i \in DOMAIN r.toks : r.toks[i].s \in B /\ r.toks[i].e \in B
SpansOk(r)     == LET B == Bounds(r) IN (\A x \in Range(r.spans) : SpanOk(r, B, x)) /\ (\A x \in Range(r.evs) : SpanOk(r, B, x))
LabelsOk(r)    == LET B == Bounds(r) IN (\A x \in Range(r.labels) : SpanOk(r, B, x)) /\ (\A x \in Range(r.rlabels) : SpanOk(r, B, x))
FragmentsFaithful(r) == LET B == Bounds(r) IN \A f \in Range(r.frags) : SpanOk(r, B, f) /\ f.t = Slice(r, f.s, f.e)
EventsOrdered(r) == \A i \in 1..(Len(r.evs) - 1) : r.evs[i].e <= r.evs[i + 1].s
ReportRenders(r) == r.write \in {"ok", "skipped"}

(* ---- conservation (C05) ----------------------------------------------------------------------- *)
CoveredAt(r, i) == \E k \in DOMAIN r.evs : r.evs[k].s <= r.offs[i] /\ r.offs[i] < r.evs[k].e
Uncovered(r)    == {i \in (Range(r.alnum) \ InComment(r.input)) : ~CoveredAt(r, i)}
Covered(r)      == r.haserr \/ Uncovered(r) = {}

(* ---- event protocol (the contract the block parsers owe the analysis; C03) ----------------------- *)
RECURSIVE Grammar(_, _, _)
\* mode: "out" | "step" | "text"
Grammar(ks, i, mode) ==
  IF i > Len(ks) THEN mode = "out"
  ELSE LET k == ks[i] IN
    CASE k \in {"Error", "Warning"}            -> Grammar(ks, i + 1, mode)
      [] k = "FrontMatter"                     -> i = 1 /\ Grammar(ks, i + 1, mode)
      [] k \in {"Metadata", "Section"}         -> mode = "out" /\ Grammar(ks, i + 1, mode)
      [] k = "StartStep"                       -> mode = "out" /\ Grammar(ks, i + 1, "step")
      [] k = "StartText"                       -> mode = "out" /\ Grammar(ks, i + 1, "text")
      [] k = "EndStep"                         -> mode = "step" /\ Grammar(ks, i + 1, "out")
      [] k = "EndText"                         -> mode = "text" /\ Grammar(ks, i + 1, "out")
      [] k = "Text"                            -> mode # "out" /\ Grammar(ks, i + 1, mode)
      [] k \in {"Ingredient", "Cookware", "Timer"} -> mode = "step" /\ Grammar(ks, i + 1, mode)
      [] OTHER                                 -> FALSE
EventGrammar(ks) == Grammar(ks, 1, "out")
=============================================================================
