------------------------------ MODULE Trace_Serde ------------------------------
(* Trace specification for C15.  The specification contributes the abstract        *)
(* identity De(Ser(r)) = r with Ser(De(Ser(r))) = Ser(r), and the list of model     *)
(* constructors a run must have exercised for the identity to have been tried on    *)
(* every shape (serde attributes are per type: a mismatch only shows on the         *)
(* variant that uses it).  serde itself is a black box (DESIGN section 7).          *)
EXTENDS Naturals, Sequences, FiniteSets, TLC, Json, IOUtils
VARIABLES l
Recs == ndJsonDeserialize(IOEnv.TRACE)
Range(f) == {f[i] : i \in DOMAIN f}
RequiredVariants == {"Number::Regular", "Number::Fraction", "Number::Fraction(err)", "Value::Number", "Value::Range", "Value::Text",
                     "ScalableValue::Fixed", "ScalableValue::Linear", "RecipeReference", "RecipeReference(no components)",
                     "Relation::Definition", "Relation::Reference(ingredient)", "Relation::Reference(step)", "Relation::Reference(section)",
                     "ComponentRelation::Reference", "Modifiers(non-empty)", "alias", "note", "Timer", "InlineQuantity", "Section(name)",
                     "Content::Step", "Content::Text", "Metadata(string)", "Metadata(sequence)", "Metadata(mapping)", "Metadata(number)",
                     "Metadata(bool)", "Metadata(null)", "Servings", "Scaled::Scaled", "Scaled::DefaultScaling",
                     "ScaleOutcome::Scaled", "ScaleOutcome::Fixed", "ScaleOutcome::NoQuantity"}
Bad(r) == IF r.kind_rec = "coverage"
          THEN (IF RequiredVariants \subseteq Range(r.variants) THEN {} ELSE {"EveryVariantExercised"})
          ELSE IF r.obs.st = "panic" THEN {"Returns"}
          ELSE IF r.obs.st # "ok" THEN {}
          ELSE UNION { (IF c.rt.ser /\ c.rt.de THEN {} ELSE {"SerializesAndDeserializes"})
                       \cup (IF c.rt.equal THEN {} ELSE {"DeserializedEqualsOriginal"})
                       \cup (IF c.rt.identical THEN {} ELSE {"ReserializationIdentical"}) : c \in Range(r.obs.cases) }
TInit == l = 1
TNext == /\ l <= Len(Recs)
         /\ LET f == Bad(Recs[l]) IN IF f = {} THEN TRUE ELSE PrintT(<<"BAD", l, f>>)
         /\ IF l = Len(Recs) THEN PrintT(<<"CONSUMED", l>>) ELSE TRUE
         /\ l' = l + 1
=============================================================================
