CONSTANTS
  Clauses = {"Returns", "EventsLocatedInOrder", "EventsBracketed", "RecipeReadAsSpecified", "SilentWhenSpecifiedSilent", "DiagnosedAsSpecified", "AstReturns", "AstNodesAreEventNodes"}
INIT TInit
NEXT TNext
CHECK_DEADLOCK FALSE
