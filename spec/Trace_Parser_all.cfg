CONSTANTS
  Clauses = {"Returns", "EventsLocatedInOrder", "EventsBracketed", "RecipeReadAsSpecified", "SilentWhenSpecifiedSilent", "DiagnosedAsSpecified"}
INIT TInit
NEXT TNext
CHECK_DEADLOCK FALSE
