CONSTANTS
  Ext <- AllExtensions
  Conv = "bundled"
  Variants = FALSE
  Syntax <- SyntaxAsExt
  Defects = FALSE
  Mode = "bfs"
  Kernel = "struct"
  MaxBlocks = 4
  MaxItems = 2
  MaxComps = 2
INIT Init
NEXT Next
INVARIANTS InvConsistent InvValidRefs InvValidity Emit
CHECK_DEADLOCK FALSE
