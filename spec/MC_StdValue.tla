----------------------------- MODULE MC_StdValue -----------------------------
(* Every string over a small alphabet up to MaxLen, per key, with the reading     *)
(* CookStdValue specifies; replayed through a quoted YAML string (the value       *)
(* reaches the reader verbatim).                                                  *)
EXTENDS CookStdValue, Json
CONSTANTS MaxLen, Kind       \* Kind: "time" | "locale" | "servings" | "tags"
VARIABLES str, done
Alphabet == CASE Kind = "time" -> {"1", "3", "0", "h", "m", "s", "d", " ", ".", "-", "+"}
              [] Kind = "locale" -> {"e", "n", "G", "B", "_", "1", " ", "-"}
              [] Kind = "servings" -> {"2", "4", "0", "|", " ", "c", "+", "-", "."}
              [] Kind = "tags" -> {"a", "b", ",", " "}
              [] Kind = "nameurl" -> {"M", " ", "<", ">", ":", "/", "h"}
Keys == CASE Kind = "time" -> {"time", "prep time"} [] Kind = "locale" -> {"locale"} [] Kind = "servings" -> {"servings", "yield"} [] Kind = "tags" -> {"tags"} [] Kind = "nameurl" -> {"author", "source"}
Reading == CASE Kind = "time" -> TimeOf(str) [] Kind = "locale" -> LocaleOf(str) [] Kind = "servings" -> ServingsOf(str) [] Kind = "tags" -> TagsOf(str) [] Kind = "nameurl" -> NameUrlOf(str)
Init == str = <<>> /\ done = FALSE
Add == ~done /\ Len(str) < MaxLen /\ \E c \in Alphabet : str' = Append(str, c) /\ UNCHANGED done
Stop == ~done /\ str # <<>> /\ done' = TRUE /\ UNCHANGED str
Next == Add \/ Stop
\* a reading is a number of minutes, or nothing; never something else (the design-level half of C13)
TypeOk == done => Reading.t \in {"none", "minutes", "locale", "servings", "tags", "big", "nameurl"}
Emit == (done /\ Reading.t # "big") => \A k \in Keys : PrintT(<<"REPLAY", ToJson([key |-> k, val |-> <<Str(str)>>, style |-> "yamlstring", conv |-> Conv, pred |-> Reading, number |-> FALSE])>>)
=============================================================================
