----------------------------- MODULE Trace_Parse -----------------------------
(* Trace specification for C04 / C05 (and the event protocol of C03): judges   *)
(* recorded executions of the lexer hook, PullParser, the analysis report and  *)
(* SourceReport::write with CookSpans' predicates; the token stream is also    *)
(* compared with CookLexer's Tokens() where the record carries a prediction.   *)
EXTENDS CookSpans, Json, IOUtils
CONSTANTS Clauses       \* which clauses this run judges (a property selects its own)
VARIABLES l

Recs == ndJsonDeserialize(IOEnv.TRACE)

Holds(c, r) ==
  CASE c = "NoPanic"            -> r.parsed /\ r.lexed /\ r.analysed /\ r.write # "panic"
    [] c = "TokensTile"         -> r.lexed => TokensTile(r) /\ TokensOnBoundaries(r)
    [] c = "SpansOk"            -> SpansOk(r)
    [] c = "LabelsOk"           -> LabelsOk(r)
    [] c = "FragmentsFaithful"  -> FragmentsFaithful(r)
    [] c = "EventsOrdered"      -> EventsOrdered(r)
    [] c = "ReportRenders"      -> ReportRenders(r)
    [] c = "Covered"            -> r.parsed => Covered(r)
    [] c = "EventGrammar"       -> r.parsed => EventGrammar(r.evk)
\* the token stream is internal (hook H1): that it tiles the input is a design fact of the lexer, not a statement of C04 -
\* an implementation that skips a byte-order mark before lexing breaks it without breaking the property (drift)
Details == {"TokensAsSpecified", "TokensTile"}
Agrees(d, r) ==
  CASE d = "TokensAsSpecified"  -> ("ptoks" \in DOMAIN r /\ r.lexed) => r.toks = r.ptoks
    [] d = "TokensTile"         -> r.lexed => TokensTile(r) /\ TokensOnBoundaries(r)
Failed(r) == {c \in Clauses : ~Holds(c, r)}
Drift(r)  == {d \in Details : ~Agrees(d, r)}

TInit == l = 1
TNext == /\ l <= Len(Recs)
         /\ LET r == Recs[l] f == Failed(r) d == Drift(r) IN
              /\ IF f = {} THEN TRUE ELSE PrintT(<<"BAD", l, f>>)
              /\ IF d = {} THEN TRUE ELSE PrintT(<<"NOTE", l, d>>)
         /\ IF l = Len(Recs) THEN PrintT(<<"CONSUMED", l>>) ELSE TRUE
         /\ l' = l + 1
=============================================================================
