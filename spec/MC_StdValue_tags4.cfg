CONSTANTS
  Conv = "bundled"
  MaxLen = 4
  Kind = "tags"
INIT Init
NEXT Next
INVARIANTS TypeOk Emit
CHECK_DEADLOCK FALSE
