CONSTANTS
  Ext <- AllExtensions
  Conv = "bundled"
  MaxLines = 3
INIT Init
NEXT Next
INVARIANTS InvAgree Emit
CHECK_DEADLOCK FALSE
