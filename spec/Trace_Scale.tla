------------------------------ MODULE Trace_Scale ------------------------------
(* Trace specification for C08: one record per (recipe, factor): the model the     *)
(* specification predicts for the recipe (pred.model) and what scale /             *)
(* default_scale / scale_to_servings did to every component.                       *)
EXTENDS CookScale, Json, IOUtils
VARIABLES l
Recs == ndJsonDeserialize(IOEnv.TRACE)
M(r) == r.pred.model
Clauses == {"Returns", "OutcomesLineUp", "IngredientsScaledExactlyWhenLinear", "CookwareNeverScaled", "TimersNeverScaled",
            "EverythingElseUnchanged", "DefaultScaleIsVerbatim", "ServingsEquivalence", "ServingsBaseIsFirstDeclared", "ServingsSetByHandAreDeclared"}
Holds(c, r) ==
  CASE c = "Returns" -> r.obs.st = "ok"
    [] c = "OutcomesLineUp" -> r.obs.st = "ok" => (Len(r.obs.igr) = Len(M(r).igr) /\ Len(r.obs.cw) = Len(M(r).cw) /\ Len(r.obs.tm) = Len(M(r).tm)
                                                  /\ r.obs.outcome_lens = <<Len(M(r).igr), Len(M(r).cw), Len(M(r).tm)>>)
    [] c = "IngredientsScaledExactlyWhenLinear" -> r.obs.st = "ok" => \A i \in DOMAIN r.obs.igr : i \in DOMAIN M(r).igr => ComponentOk(M(r).igr[i].q, r.obs.igr[i])
    [] c = "CookwareNeverScaled" -> r.obs.st = "ok" => \A i \in DOMAIN r.obs.cw : i \in DOMAIN M(r).cw =>
                                       (NeverScaled(M(r).cw[i].q) /\ ComponentOk(M(r).cw[i].q, r.obs.cw[i]))
    [] c = "TimersNeverScaled" -> r.obs.st = "ok" => \A i \in DOMAIN r.obs.tm : i \in DOMAIN M(r).tm =>
                                       (NeverScaled(M(r).tm[i].q) /\ ComponentOk(M(r).tm[i].q, r.obs.tm[i]))
    [] c = "EverythingElseUnchanged" -> r.obs.st = "ok" => r.obs.rest_unchanged
    [] c = "DefaultScaleIsVerbatim" -> r.obs.st = "ok" => r.obs.default_verbatim
    \* set_servings declares them by hand: scale_to_servings(n) after set_servings(<<5, 3>>) is scale(n / 5)
    [] c = "ServingsSetByHandAreDeclared" -> r.obs.st = "ok" => r.obs.set_servings_equiv
    [] c = "ServingsEquivalence" -> r.obs.st = "ok" => r.obs.servings_equiv
    [] c = "ServingsBaseIsFirstDeclared" -> r.obs.st = "ok" => r.obs.base_used = ServingsBase(M(r).servings)
Failed(r) == {c \in Clauses : ~Holds(c, r)}
TInit == l = 1
TNext == /\ l <= Len(Recs)
         /\ LET f == Failed(Recs[l]) IN IF f = {} THEN TRUE ELSE PrintT(<<"BAD", l, f>>)
         /\ IF l = Len(Recs) THEN PrintT(<<"CONSUMED", l>>) ELSE TRUE
         /\ l' = l + 1
=============================================================================
