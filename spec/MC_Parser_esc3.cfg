CONSTANTS
  Alphabet = {"BS", "@", "{", "}", "a", "E2", " ", "LF", "[", "-", "]", "(", ")", "E4", "TSP"}
  MaxLen = 3
  Prefix <- NoSeq
  Suffix <- NoSeq
  ExtChoices <- ExtAllNone
  OsmChoices <- OnlyOsm
INIT MCInit
NEXT MCNext
INVARIANTS InvOrdered InvBracketed InvProgress2 InvFunctional2 NoStuck2 InvCovered Emit2
CHECK_DEADLOCK FALSE
