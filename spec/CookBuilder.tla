----------------------------- MODULE CookBuilder -----------------------------
(***************************************************************************)
(* M10: ConverterBuilder (src/convert/builder.rs) as a state machine over  *)
(* configuration layers.  A layer is a units file in the very shape serde  *)
(* reads (records with the field names of units_file.rs; optional fields   *)
(* are simply absent), so the same value is interpreted by this model and  *)
(* deserialised by the real builder.                                       *)
(*   AddFile(f)  - add_units_file: units by system, best lists override,   *)
(*                 extend pushed, SI prefixes joined by precedence         *)
(*   ExpandSI, ApplyExtend, BuildBest, BuildFractions - the phases of      *)
(*                 finish(), each of which can reject                      *)
(* The outcome is Built or Rejected(kind); there is no third outcome       *)
(* (a panic).  C16's invariants are stated on every Built state.           *)
(***************************************************************************)
EXTENDS Naturals, Sequences, FiniteSets, TLC, SequencesExt

Quantities == {"volume", "mass", "length", "temperature", "time"}
SIPrefixes == <<"kilo", "hecto", "deca", "deci", "centi", "milli">>
\* ratios are kept as integers scaled by 1000 (milli = 1/1000 of the base unit)
PrefixMul(p) == CASE p = "kilo" -> 1000000 [] p = "hecto" -> 100000 [] p = "deca" -> 10000 [] p = "deci" -> 100 [] p = "centi" -> 10 [] p = "milli" -> 1

VARIABLES layers,    \* files added so far (history)
          units,     \* all_units: seq of unit records
          index,     \* unit_index: set of [k |-> key, id |-> unit id]
          extends,   \* pending extend groups
          si,        \* [has, names, syms] joined SI configuration
          best,      \* quantity -> [has |-> BOOLEAN, v |-> the best units entry of the last layer that had one]
          fracs,     \* unit keys mentioned by fractions.unit of any layer
          phase,     \* "adding" | "expanded" | "extended" | "bested" | "built" | "rejected"
          reason     \* rejection kind
vars == <<layers, units, index, extends, si, best, fracs, phase, reason>>

Has(f, field) == field \in DOMAIN f
Get(f, field, dflt) == IF field \in DOMAIN f THEN f[field] ELSE dflt
SeqToSet(s) == {s[i] : i \in DOMAIN s}
Blank(k) == k \in {"", " ", "  "}
AllKeys(u) == u.names \o u.symbols \o u.aliases
Lookup(idx, k) == IF \E e \in idx : e.k = k THEN (CHOOSE e \in idx : e.k = k).id ELSE 0

\* UnitIndex::add_unit: [ok, index, why]
RECURSIVE AddKeys(_, _, _, _)
AddKeys(idx, keys, id, i) ==
  IF i > Len(keys) THEN [ok |-> TRUE, index |-> idx, why |-> ""]
  ELSE IF Blank(keys[i]) THEN [ok |-> FALSE, index |-> idx, why |-> "EmptyUnitKey"]
  ELSE IF Lookup(idx, keys[i]) # 0 THEN [ok |-> FALSE, index |-> idx, why |-> "DuplicateUnit"]
  ELSE AddKeys(idx \cup {[k |-> keys[i], id |-> id]}, keys, id, i + 1)
IndexUnit(idx, u, id) == IF AllKeys(u) = <<>> THEN [ok |-> FALSE, index |-> idx, why |-> "EmptyUnit"] ELSE AddKeys(idx, AllKeys(u), id, 1)

\* ---- add_units_file --------------------------------------------------------------------------------------------
MkUnit(e, q, sys) == [names |-> e.names, symbols |-> e.symbols, aliases |-> Get(e, "aliases", <<>>), ratio |-> e.ratio * 1000, q |-> q, sys |-> sys,
                      expand |-> Get(e, "expand_si", FALSE), isExp |-> FALSE, exp |-> <<>>]
\* the unit entries of one quantity group in registration order: metric, imperial, unspecified (or the unified list)
GroupUnits(g) == IF ~Has(g, "units") THEN <<>>
                 ELSE IF Has(g.units, "metric") \/ Has(g.units, "imperial") \/ Has(g.units, "unspecified")
                 THEN [i \in DOMAIN Get(g.units, "metric", <<>>) |-> MkUnit(g.units.metric[i], g.quantity, "metric")]
                      \o [i \in DOMAIN Get(g.units, "imperial", <<>>) |-> MkUnit(g.units.imperial[i], g.quantity, "imperial")]
                      \o [i \in DOMAIN Get(g.units, "unspecified", <<>>) |-> MkUnit(g.units.unspecified[i], g.quantity, "none")]
                 ELSE [i \in DOMAIN g.units.unified |-> MkUnit(g.units.unified[i], g.quantity, "none")]
\* (a list without system information is written [unified |-> list] here and as the bare list in the file)
BestEmpty(b) == IF Has(b, "metric") THEN (b.metric = <<>> \/ b.imperial = <<>>) ELSE b.unified = <<>>
\* folds the groups of a file: [ok, units, index, best, why]
RECURSIVE AddUnitsR(_, _, _)
AddUnitsR(st, us, i) == IF i > Len(us) \/ ~st.ok THEN st
                        ELSE LET r == IndexUnit(st.index, us[i], Len(st.units) + 1)
                             IN AddUnitsR([st EXCEPT !.ok = r.ok, !.why = r.why, !.index = r.index, !.units = IF r.ok THEN Append(@, us[i]) ELSE @], us, i + 1)
RECURSIVE AddGroups(_, _, _)
AddGroups(st, gs, i) ==
  IF i > Len(gs) \/ ~st.ok THEN st
  ELSE LET g == gs[i]
           s1 == AddUnitsR(st, GroupUnits(g), 1)
       IN IF ~s1.ok THEN s1
          ELSE IF Has(g, "best") /\ BestEmpty(g.best) THEN [s1 EXCEPT !.ok = FALSE, !.why = "EmptyBest"]
          ELSE AddGroups(IF Has(g, "best") THEN [s1 EXCEPT !.best[g.quantity] = [has |-> TRUE, v |-> g.best]] ELSE s1, gs, i + 1)
\* join_prefixes for one prefix table (functions prefix -> seq of strings)
JoinPrefix(a, b, prec) == CASE prec = "before" -> [p \in DOMAIN b |-> b[p] \o a[p]]
                            [] prec = "after" -> [p \in DOMAIN a |-> a[p] \o b[p]]
                            [] prec = "override" -> b
JoinSI(old, new) ==
  LET prec == Get(new, "precedence", "before")
      names == IF ~Has(new, "prefixes") THEN old.names ELSE IF old.names = <<>> THEN new.prefixes ELSE JoinPrefix(old.names, new.prefixes, prec)
      syms  == IF ~Has(new, "symbol_prefixes") THEN old.syms ELSE IF old.syms = <<>> THEN new.symbol_prefixes ELSE JoinPrefix(old.syms, new.symbol_prefixes, prec)
  IN [names |-> names, syms |-> syms]

Init == /\ layers = <<>> /\ units = <<>> /\ index = {} /\ extends = <<>> /\ si = [names |-> <<>>, syms |-> <<>>]
        /\ best = [q \in Quantities |-> [has |-> FALSE, v |-> <<>>]] /\ fracs = {} /\ phase = "adding" /\ reason = ""
Reject(why) == phase' = "rejected" /\ reason' = why
AddFile(f) ==
  /\ phase = "adding"
  /\ layers' = Append(layers, f)
  /\ LET r == AddGroups([ok |-> TRUE, units |-> units, index |-> index, best |-> best, why |-> ""], Get(f, "quantity", <<>>), 1) IN
     IF ~r.ok THEN Reject(r.why) /\ UNCHANGED <<units, index, extends, si, best, fracs>>
     ELSE /\ units' = r.units /\ index' = r.index /\ best' = r.best
          /\ extends' = IF Has(f, "extend") THEN Append(extends, f.extend) ELSE extends
          /\ si' = IF Has(f, "si") THEN JoinSI(si, f.si) ELSE si
          /\ fracs' = fracs \cup (IF Has(f, "fractions") /\ Has(f.fractions, "unit") THEN DOMAIN f.fractions.unit ELSE {})
          /\ UNCHANGED <<phase, reason>>

\* ---- finish(): expand SI ------------------------------------------------------------------------------------------
Concat(p, n) == p \o n
ExpandOne(u, p) == [names |-> FlattenSeq([i \in DOMAIN si.names[p] |-> [j \in DOMAIN u.names |-> Concat(si.names[p][i], u.names[j])]]),
                    symbols |-> FlattenSeq([i \in DOMAIN si.syms[p] |-> [j \in DOMAIN u.symbols |-> Concat(si.syms[p][i], u.symbols[j])]]),
                    aliases |-> <<>>, ratio |-> (u.ratio \div 1000) * PrefixMul(p), q |-> u.q, sys |-> u.sys, expand |-> FALSE, isExp |-> TRUE, exp |-> <<>>]
\* expands unit id for prefixes k..6: [ok, units, index, ids, why]
RECURSIVE ExpandPrefixes(_, _, _)
ExpandPrefixes(st, id, k) ==
  IF k > Len(SIPrefixes) \/ ~st.ok THEN st
  ELSE LET nu == ExpandOne(st.units[id], SIPrefixes[k])
           r == IndexUnit(st.index, nu, Len(st.units) + 1)
       IN ExpandPrefixes([st EXCEPT !.ok = r.ok, !.why = r.why, !.index = r.index, !.units = IF r.ok THEN Append(@, nu) ELSE @,
                                    !.ids = IF r.ok THEN Append(@, Len(st.units) + 1) ELSE @], id, k + 1)
RECURSIVE ExpandAll(_, _, _)
ExpandAll(st, id, n) ==     \* ids 1..n are the units present before the expansion started
  IF id > n \/ ~st.ok THEN st
  ELSE IF ~st.units[id].expand THEN ExpandAll(st, id + 1, n)
  ELSE IF si.names = <<>> \/ si.syms = <<>> THEN [st EXCEPT !.ok = FALSE, !.why = "EmptySIPrefixes"]
  ELSE LET r == ExpandPrefixes([st EXCEPT !.ids = <<>>], id, 1)
       IN ExpandAll(IF r.ok THEN [r EXCEPT !.units[id].exp = r.ids] ELSE r, id + 1, n)
Finish1 == /\ phase = "adding" /\ layers # <<>>
           /\ LET r == ExpandAll([ok |-> TRUE, units |-> units, index |-> index, ids |-> <<>>, why |-> ""], 1, Len(units)) IN
              IF ~r.ok THEN Reject(r.why) /\ UNCHANGED <<units, index>>
              ELSE units' = r.units /\ index' = r.index /\ phase' = "expanded" /\ UNCHANGED reason
           /\ UNCHANGED <<layers, extends, si, best, fracs>>

\* ---- finish(): apply extend groups -------------------------------------------------------------------------------------
JoinAlias(target, src, prec) == CASE prec = "before" -> src \o target [] prec = "after" -> target \o src [] prec = "override" -> src
KeysOfRec(us, id) == SeqToSet(AllKeys(us[id])) \cup UNION {SeqToSet(AllKeys(us[us[id].exp[i]])) : i \in DOMAIN us[id].exp}
EditUnit(u, e, prec) ==
  [u EXCEPT !.ratio = IF Has(e, "ratio") THEN e.ratio * 1000 ELSE @,
            !.names = IF Has(e, "names") THEN JoinAlias(@, e.names, prec) ELSE @,
            !.symbols = IF Has(e, "symbols") THEN JoinAlias(@, e.symbols, prec) ELSE @,
            !.aliases = IF Has(e, "aliases") THEN JoinAlias(@, e.aliases, prec) ELSE @]
\* re-expansion of an edited SI base unit: the expanded units are rebuilt but keep their own aliases
RECURSIVE ReExpand(_, _, _)
ReExpand(st, id, k) ==
  IF k > Len(SIPrefixes) \/ ~st.ok THEN st
  ELSE LET eid == st.units[id].exp[k]
           nu == [ExpandOne(st.units[id], SIPrefixes[k]) EXCEPT !.aliases = st.units[eid].aliases]
           r == IndexUnit(st.index, nu, eid)
       IN ReExpand([st EXCEPT !.ok = r.ok, !.why = r.why, !.index = r.index, !.units[eid] = nu], id, k + 1)
\* applies the resolved updates of one group in order: [ok, units, index, why]
RECURSIVE ApplyUpdates(_, _, _, _)
ApplyUpdates(st, ups, prec, i) ==
  IF i > Len(ups) \/ ~st.ok THEN st
  ELSE LET id == ups[i].id
           removed == {e \in st.index : e.k \notin KeysOfRec(st.units, id)}
           edited == EditUnit(st.units[id], ups[i].e, prec)
           s1 == [st EXCEPT !.index = removed, !.units[id] = edited]
           s2 == IF edited.expand THEN ReExpand(s1, id, 1) ELSE s1
           r == IF s2.ok THEN IndexUnit(s2.index, edited, id) ELSE [ok |-> FALSE, index |-> s2.index, why |-> s2.why]
       IN ApplyUpdates([s2 EXCEPT !.ok = r.ok, !.why = r.why, !.index = r.index], ups, prec, i + 1)
\* the keys of an extend group in an arbitrary but fixed order (a HashMap in the code: the outcome must not depend on it)
KeySeq(g) == SetToSeq(DOMAIN g.units)
ResolveGroup(st, g) ==
  LET ks == KeySeq(g)
      ids == [i \in DOMAIN ks |-> Lookup(st.index, ks[i])]
      touchesExpanded == \E i \in DOMAIN ks : ids[i] # 0 /\ st.units[ids[i]].isExp
                            /\ (Has(g.units[ks[i]], "ratio") \/ Has(g.units[ks[i]], "names") \/ Has(g.units[ks[i]], "symbols"))
  IN IF \E i \in DOMAIN ks : ids[i] = 0 THEN [st EXCEPT !.ok = FALSE, !.why = "UnknownUnit"]
     ELSE IF \E i, j \in DOMAIN ks : i # j /\ ids[i] = ids[j] THEN [st EXCEPT !.ok = FALSE, !.why = "DuplicateExtendUnit"]
     ELSE IF touchesExpanded THEN [st EXCEPT !.ok = FALSE, !.why = "InvalidExtendExpanded"]
     ELSE ApplyUpdates(st, [i \in DOMAIN ks |-> [id |-> ids[i], e |-> g.units[ks[i]]]], Get(g, "precedence", "before"), 1)
RECURSIVE ApplyGroups(_, _)
ApplyGroups(st, i) == IF i > Len(extends) \/ ~st.ok THEN st ELSE ApplyGroups(ResolveGroup(st, extends[i]), i + 1)
Finish2 == /\ phase = "expanded"
           /\ LET r == ApplyGroups([ok |-> TRUE, units |-> units, index |-> index, why |-> ""], 1) IN
              IF ~r.ok THEN Reject(r.why) /\ UNCHANGED <<units, index>>
              ELSE units' = r.units /\ index' = r.index /\ phase' = "extended" /\ UNCHANGED reason
           /\ UNCHANGED <<layers, extends, si, best, fracs>>

\* ---- finish(): best conversions and fractions -------------------------------------------------------------------------------
BestLists(b) == IF Has(b, "metric") THEN <<b.metric, b.imperial>> ELSE <<b.unified>>
BestProblem(q) ==
  IF ~best[q].has THEN "EmptyBest"
  ELSE LET ls == BestLists(best[q].v)
           names == UNION {SeqToSet(ls[i]) : i \in DOMAIN ls}
       IN IF \E n \in names : Lookup(index, n) = 0 THEN "UnknownUnit"
          ELSE IF \E n \in names : units[Lookup(index, n)].q # q THEN "BestUnitWrongQuantity"
          ELSE ""
\* the code walks the quantities in declaration order and stops at the first problem
QOrder == <<"volume", "mass", "length", "temperature", "time">>
FirstProblem == LET ps == SelectSeq([i \in DOMAIN QOrder |-> BestProblem(QOrder[i])], LAMBDA p : p # "") IN IF ps = <<>> THEN "" ELSE ps[1]
Finish3 == /\ phase = "extended"
           /\ IF FirstProblem # "" THEN Reject(FirstProblem) ELSE phase' = "bested" /\ UNCHANGED reason
           /\ UNCHANGED <<layers, units, index, extends, si, best, fracs>>
Finish4 == /\ phase = "bested"
           /\ IF \E k \in fracs : Lookup(index, k) = 0 THEN Reject("UnknownUnit") ELSE phase' = "built" /\ UNCHANGED reason
           /\ UNCHANGED <<layers, units, index, extends, si, best, fracs>>

\* ---- C16 on a built converter --------------------------------------------------------------------------------------------------
Built == phase = "built"
\* every declared name, symbol, alias and SI-prefixed form resolves to exactly its unit
EveryKeyResolvesToItsUnit == Built => \A id \in DOMAIN units : \A k \in SeqToSet(AllKeys(units[id])) : Lookup(index, k) = id
NoSharedKey == Built => \A e1, e2 \in index : e1.k = e2.k => e1.id = e2.id
IndexHasOnlyUnitKeys == Built => \A e \in index : e.id \in DOMAIN units /\ e.k \in SeqToSet(AllKeys(units[e.id]))
\* each best list holds units of its own quantity; the converter keeps them in increasing size
SortedBest(names) == SortSeq([i \in DOMAIN names |-> Lookup(index, names[i])], LAMBDA a, b : units[a].ratio < units[b].ratio)
BestOwnQuantity == Built => \A q \in Quantities : \A l \in SeqToSet(BestLists(best[q].v)) : \A n \in SeqToSet(l) : units[Lookup(index, n)].q = q
Terminates == phase \in {"built", "rejected"} \/ ENABLED (Finish1 \/ Finish2 \/ Finish3 \/ Finish4) \/ phase = "adding"
=============================================================================
