----------------------------- MODULE Trace_StdMeta -----------------------------
(* Trace specification for C13: one record per (key, value shape, spelling,      *)
(* converter): what CookMeta predicts and what the parser report and the         *)
(* accessors said.                                                               *)
EXTENDS Naturals, Sequences, TLC, Json, IOUtils
VARIABLES l
Recs == ndJsonDeserialize(IOEnv.TRACE)
None == [t |-> "none"]
Clauses == {"Returns", "ReadingAsDocumented", "OutOfFormWarnsAndGivesNothing", "WarningIffNothing", "MetadataAccessorAgrees", "ServingsStoredForScaling"}
Holds(c, r) ==
  CASE c = "Returns"                       -> r.obs.st = "ok" /\ r.obs.acc.t # "panic" /\ r.obs.macc.t # "panic"
    [] c = "ReadingAsDocumented"           -> (r.obs.st = "ok" /\ r.pred # None) => r.obs.acc = r.pred
    [] c = "OutOfFormWarnsAndGivesNothing" -> (r.obs.st = "ok" /\ r.pred = None) => (r.obs.warned /\ r.obs.acc = None)
    [] c = "WarningIffNothing"             -> r.obs.st = "ok" => (r.obs.warned <=> r.obs.acc = None)
    [] c = "MetadataAccessorAgrees"        -> (r.obs.st = "ok" /\ r.obs.macc.t # "n/a") => r.obs.macc = r.obs.acc
    [] c = "ServingsStoredForScaling"      -> (r.obs.st = "ok" /\ r.pred.t = "servings") => r.obs.scaling_servings = r.pred.ns
Failed(r) == {c \in Clauses : ~Holds(c, r)}
TInit == l = 1
TNext == /\ l <= Len(Recs)
         /\ LET f == Failed(Recs[l]) IN IF f = {} THEN TRUE ELSE PrintT(<<"BAD", l, f>>)
         /\ IF l = Len(Recs) THEN PrintT(<<"CONSUMED", l>>) ELSE TRUE
         /\ l' = l + 1
=============================================================================
