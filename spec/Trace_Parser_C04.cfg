CONSTANTS
  Clauses = {"Returns", "EventsLocatedInOrder", "EventsBracketed", "AstNodesAreEventNodes"}
INIT TInit
NEXT TNext
CHECK_DEADLOCK FALSE
