CONSTANTS
  Clauses = {"Returns", "EventsLocatedInOrder", "EventsBracketed"}
INIT TInit
NEXT TNext
CHECK_DEADLOCK FALSE
