------------------------------- MODULE CookScale -------------------------------
(***************************************************************************)
(* M5: scaling (src/scale.rs) stated over the recipe model of CookAnalysis: *)
(* which outcome and which multiplier each component must get.  A quantity  *)
(* is Linear exactly when it belongs to an ingredient, is numeric or a      *)
(* range and is not locked with `=` (q.fixed = FALSE in the model).         *)
(***************************************************************************)
EXTENDS Naturals, Sequences, TLC
NoQ == [t |-> "none"]
ExpectedOutcome(q) == IF q = NoQ THEN "noQuantity" ELSE IF q.fixed THEN "fixed" ELSE "scaled"
\* what must be true of one scaled component c (observed: outcome, multiplied_by_factor, unchanged) given its model quantity q
ComponentOk(q, c) == /\ c.outcome = ExpectedOutcome(q)
                     /\ (ExpectedOutcome(q) = "scaled" => c.mult_f)
                     /\ (ExpectedOutcome(q) # "scaled" => c.same)
\* only ingredients can be Linear
NeverScaled(q) == q = NoQ \/ q.fixed
\* the base of scale_to_servings is the FIRST declared servings value (1 when none is declared)
ServingsBase(servings) == IF servings = <<>> THEN 1 ELSE servings[1]
=============================================================================
