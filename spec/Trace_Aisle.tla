----------------------------- MODULE Trace_Aisle -----------------------------
(* Trace specification for C11: judges recorded executions of aisle::parse /  *)
(* write / ingredients_info.  One record per execution: the input, what the   *)
(* specification predicted (pred, when the input came from MC_Aisle) and what *)
(* the implementation did (obs).  Every predicate is CookAisle's own.         *)
EXTENDS CookAisle, Json, IOUtils
VARIABLES l, nbad

Recs == ndJsonDeserialize(IOEnv.TRACE)
HasPred(r) == "pred" \in DOMAIN r

LookupEntry(r, nm) == { e \in { r.obs.lookup[i] : i \in DOMAIN r.obs.lookup } : e.key = nm }
ObsLookupOk(r) == /\ r.obs.lookup_ran
                  /\ \A t \in Triples(r.obs.cats) :
                       LET nm == NameAt(r.obs.cats, t) es == LookupEntry(r, nm) IN
                         /\ Cardinality(es) = 1
                         /\ \A e \in es : e.category = r.obs.cats[t[1]].name /\ e.common = r.obs.cats[t[1]].igrs[t[2]][1]

\* property clauses (a failed one is a violation of C11)
Clauses == {"Total", "SpansInside", "NoDuplicateCategory", "NoDuplicateName", "NamesTrimmed", "RoundTrip",
            "Lookup", "OutcomeAsSpecified", "CatsAsSpecified", "BindingsLookup"}
Holds(c, r) ==
  CASE c = "Total"               -> r.obs.st # "panic"
    [] c = "SpansInside"         -> r.obs.st = "err" => SpanInside(r.obs.first, r.len) /\ SpanInside(r.obs.second, r.len)
    [] c = "NoDuplicateCategory" -> r.obs.st = "ok" => NoDuplicateCategory(r.obs.cats)
    [] c = "NoDuplicateName"     -> r.obs.st = "ok" => NoDuplicateName(r.obs.cats)
    [] c = "NamesTrimmed"        -> r.obs.st = "ok" => NamesTrimmed(r.obs.cats)
    [] c = "RoundTrip"           -> r.obs.st = "ok" => r.obs.rt = "same"
    [] c = "Lookup"              -> r.obs.st = "ok" => ObsLookupOk(r)
    \* the bindings' category_for: every listed name answers with the category of its line (names the file does not list are free)
    [] c = "BindingsLookup"      -> (r.obs.st = "ok" /\ "ffi" \in DOMAIN r.obs) =>
                                      /\ r.obs.ffi_ran
                                      /\ \A t \in Triples(r.obs.cats) : \E i \in DOMAIN r.obs.ffi :
                                            r.obs.ffi[i].key = NameAt(r.obs.cats, t) /\ r.obs.ffi[i].category = r.obs.cats[t[1]].name
    [] c = "OutcomeAsSpecified"  -> (HasPred(r) /\ r.obs.st # "panic") => r.obs.st = r.pred.st
    [] c = "CatsAsSpecified"     -> (HasPred(r) /\ r.obs.st = "ok" /\ r.pred.st = "ok") => r.obs.cats = r.pred.cats
\* implementation-shaped detail no clause of C11 states: disagreement is spec drift, reported only
\* (which error a file with several problems reports, and what it names, is not stated either: DuplicateReported)
Details == {"ErrorKind", "ErrorSpans", "WriterOutput", "DuplicateReported"}
Agrees(d, r) ==
  CASE d = "ErrorKind"    -> (HasPred(r) /\ r.pred.st = "err" /\ r.obs.st = "err") => r.obs.kind = r.pred.kind
    [] d = "ErrorSpans"   -> (HasPred(r) /\ r.pred.st = "err" /\ r.obs.st = "err" /\ r.obs.kind = r.pred.kind)
                                => r.obs.first = r.pred.first /\ r.obs.second = r.pred.second
    [] d = "WriterOutput" -> r.obs.st = "ok" => r.obs.written = Write(r.obs.cats)
    [] d = "DuplicateReported" -> (HasPred(r) /\ r.pred.st = "err" /\ r.obs.st = "err"
                                       /\ r.pred.kind \in {"DuplicateCategory", "DuplicateIngredient"})
                                      => r.obs.kind = r.pred.kind /\ r.obs.name = r.pred.name

Failed(r) == {c \in Clauses : ~Holds(c, r)}
Drift(r)  == {d \in Details : ~Agrees(d, r)}

TInit == l = 1 /\ nbad = 0 /\ input = <<>> /\ ln = 0 /\ st = InitSt
TNext == /\ l <= Len(Recs)
         /\ LET r == Recs[l] f == Failed(r) d == Drift(r) IN
              /\ IF f = {} THEN TRUE ELSE PrintT(<<"BAD", l, f>>)
              /\ IF d = {} THEN TRUE ELSE PrintT(<<"NOTE", l, d>>)
              /\ nbad' = IF f = {} THEN nbad ELSE nbad + 1
         /\ l' = l + 1
         /\ IF l = Len(Recs) THEN PrintT(<<"CONSUMED", l>>) ELSE TRUE
         /\ UNCHANGED <<input, ln, st>>
=============================================================================
