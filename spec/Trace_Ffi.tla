------------------------------- MODULE Trace_Ffi -------------------------------
(* Trace specification for C19.                                                     *)
(*  combine - a case of MC_Combine: the list, the selection, the numeric sums the   *)
(*            specification predicts, and what combine_ingredients_selected and     *)
(*            combine_ingredients (on the sub-list) returned                        *)
(*  mirror  - a canonically valid recipe: the core recipe (scaled) and the          *)
(*            simplified recipe of the bindings, both projected to one shape        *)
EXTENDS CookCombine, Json, IOUtils
VARIABLES l
Recs == ndJsonDeserialize(IOEnv.TRACE)
AsSet(x) == {x[i] : i \in DOMAIN x}
RECURSIVE Cat(_, _)
Cat(ss, i) == IF i > Len(ss) THEN <<>> ELSE ss[i] \o Cat(ss, i + 1)
\* the simplified recipe without its reference lists has the shape of the core view
StripBlock(b) == [k |-> b.k, text |-> b.text, items |-> b.items]
StripSec(s) == [title |-> s.title, blocks |-> [i \in DOMAIN s.blocks |-> StripBlock(s.blocks[i])]]
RefsOf(items, kind) == LET sel == SelectSeq(items, LAMBDA it : it.t = kind) IN [i \in DOMAIN sel |-> sel[i].i]
Clauses == {"Returns", "NumericSumsPerNameAndUnit", "EveryKeyPresentOnce", "SelectionEqualsSubList",
            "SectionsBlocksItemsMirrorCore", "ComponentsMirrorCore", "ItemReferencesResolve", "StepListsMatchItems", "SectionListsAreConcatenation"}
Holds(c, r) ==
  CASE c = "Returns" -> r.obs.st # "panic"
    \* also with every amount divided by 3 and by 7000 (the recorder multiplies back; -1 marks a sum that is off)
    [] c = "NumericSumsPerNameAndUnit" -> (r.kind_rec = "combine" /\ r.obs.st = "ok") =>
            (AsSet(r.obs.selected) = AsSet(r.combined) /\ AsSet(r.obs.selected_thirds) = AsSet(r.combined) /\ AsSet(r.obs.selected_small) = AsSet(r.combined))
    [] c = "EveryKeyPresentOnce" -> (r.kind_rec = "combine" /\ r.obs.st = "ok") => (AsSet(r.obs.keys) = AsSet(r.keys) /\ Len(r.obs.keys) = Cardinality(AsSet(r.keys)))
    [] c = "SelectionEqualsSubList" -> (r.kind_rec = "combine" /\ r.obs.st = "ok") => (AsSet(r.obs.selected) = AsSet(r.obs.sublist) /\ AsSet(r.obs.keys) = AsSet(r.obs.sublist_keys))
    [] c = "SectionsBlocksItemsMirrorCore" -> (r.kind_rec = "mirror" /\ r.obs.st = "ok") =>
            [i \in DOMAIN r.obs.sections |-> StripSec(r.obs.sections[i])] = r.core.sections
    [] c = "ComponentsMirrorCore" -> (r.kind_rec = "mirror" /\ r.obs.st = "ok") =>
            (r.obs.ingredients = r.core.ingredients /\ r.obs.cookware = r.core.cookware /\ r.obs.timers = r.core.timers)
    [] c = "ItemReferencesResolve" -> (r.kind_rec = "mirror" /\ r.obs.st = "ok") =>
            /\ r.obs.deref_ok
            /\ \A s \in AsSet(r.obs.sections) : \A b \in AsSet(s.blocks) : \A it \in AsSet(b.items) :
                  (it.t = "igr" => it.i \in DOMAIN r.obs.ingredients) /\ (it.t = "cw" => it.i \in DOMAIN r.obs.cookware) /\ (it.t = "tm" => it.i \in DOMAIN r.obs.timers)
    [] c = "StepListsMatchItems" -> (r.kind_rec = "mirror" /\ r.obs.st = "ok") =>
            \A s \in AsSet(r.obs.sections) : \A b \in AsSet(s.blocks) :
               b.k = "step" => (b.igr = RefsOf(b.items, "igr") /\ b.cw = RefsOf(b.items, "cw") /\ b.tm = RefsOf(b.items, "tm"))
    [] c = "SectionListsAreConcatenation" -> (r.kind_rec = "mirror" /\ r.obs.st = "ok") =>
            \A s \in AsSet(r.obs.sections) :
               /\ s.igr = Cat([i \in DOMAIN s.blocks |-> s.blocks[i].igr], 1)
               /\ s.cw = Cat([i \in DOMAIN s.blocks |-> s.blocks[i].cw], 1)
               /\ s.tm = Cat([i \in DOMAIN s.blocks |-> s.blocks[i].tm], 1)
Failed(r) == {c \in Clauses : ~Holds(c, r)}
TInit == l = 1
TNext == /\ l <= Len(Recs)
         /\ LET f == Failed(Recs[l]) IN IF f = {} THEN TRUE ELSE PrintT(<<"BAD", l, f>>)
         /\ IF l = Len(Recs) THEN PrintT(<<"CONSUMED", l>>) ELSE TRUE
         /\ l' = l + 1
=============================================================================
