----------------------------- MODULE MC_Builder -----------------------------
(* Every sequence of up to MaxLayers files from a curated pool through the      *)
(* builder model, each finished behaviour printed with the files (in serde's    *)
(* shape) and the predicted outcome / converter.                                *)
EXTENDS CookBuilder, Json
CONSTANTS MaxLayers

U(names, symbols, ratio) == [names |-> names, symbols |-> symbols, ratio |-> ratio]
SIStd == [prefixes |-> [kilo |-> <<"kilo">>, hecto |-> <<"hecto">>, deca |-> <<"deca">>, deci |-> <<"deci">>, centi |-> <<"centi">>, milli |-> <<"milli">>],
          symbol_prefixes |-> [kilo |-> <<"k">>, hecto |-> <<"h">>, deca |-> <<"da">>, deci |-> <<"d">>, centi |-> <<"c">>, milli |-> <<"m">>]]
SIAlt(prec) == [prefixes |-> [kilo |-> <<"qui">>, hecto |-> <<"hec">>, deca |-> <<"dec">>, deci |-> <<"dcm">>, centi |-> <<"cen">>, milli |-> <<"mil">>],
                symbol_prefixes |-> [kilo |-> <<"K">>, hecto |-> <<"H">>, deca |-> <<"DA">>, deci |-> <<"D">>, centi |-> <<"C">>, milli |-> <<"M">>],
                precedence |-> prec]
Base == [si |-> SIStd,
         quantity |-> << [quantity |-> "volume", best |-> [metric |-> <<"ml", "l">>, imperial |-> <<"cup", "tsp">>],
                          units |-> [metric |-> << [names |-> <<"litre", "liter">>, symbols |-> <<"l", "L">>, ratio |-> 1000, expand_si |-> TRUE] >>,
                                     imperial |-> << U(<<"teaspoon">>, <<"tsp">>, 5), [names |-> <<"cup", "cups">>, symbols |-> <<"c">>, aliases |-> <<"taza">>, ratio |-> 240] >>]],
                         [quantity |-> "mass", best |-> [metric |-> <<"g", "kg">>, imperial |-> <<"oz", "lb">>],
                          units |-> [metric |-> << [names |-> <<"gram", "grams">>, symbols |-> <<"g">>, ratio |-> 1, expand_si |-> TRUE] >>,
                                     imperial |-> << U(<<"ounce">>, <<"oz">>, 28), U(<<"pound">>, <<"lb">>, 454) >>]],
                         [quantity |-> "length", best |-> [unified |-> <<"cm">>], units |-> [unified |-> << [names |-> <<"meter">>, symbols |-> <<"mt">>, ratio |-> 100, expand_si |-> FALSE], U(<<"centimeter">>, <<"cm">>, 1) >>]],
                         [quantity |-> "temperature", best |-> [unified |-> <<"C">>], units |-> [unified |-> << U(<<"celsius">>, <<"C">>, 1) >>]],
                         [quantity |-> "time", best |-> [unified |-> <<"s", "h", "min">>],
                          units |-> [unified |-> << U(<<"second">>, <<"s">>, 1), U(<<"minute">>, <<"min">>, 60), U(<<"hour">>, <<"h">>, 3600) >>]] >>]
Pool == {
  Base,
  [quantity |-> << [quantity |-> "mass", units |-> [unified |-> << U(<<"gram">>, <<"gg">>, 1) >>]] >>],                                    \* duplicate key
  [quantity |-> << [quantity |-> "mass", units |-> [unified |-> << U(<<"stone">>, <<" ">>, 6350) >>]] >>],                                 \* blank key
  [quantity |-> << [quantity |-> "mass", units |-> [unified |-> << U(<<>>, <<>>, 3) >>]] >>],                                              \* no key at all
  [quantity |-> << [quantity |-> "mass", best |-> [metric |-> <<"kg", "g">>, imperial |-> <<"stone", "lb", "oz">>],
                    units |-> [imperial |-> << U(<<"stone">>, <<"st">>, 6350) >>]] >>],                                       \* new unit, best override unsorted
  [quantity |-> << [quantity |-> "mass", best |-> [metric |-> <<>>, imperial |-> <<"lb">>]] >>],                             \* one side empty
  [quantity |-> << [quantity |-> "volume", best |-> [unified |-> <<"nope">>]] >>],                                                          \* unknown best unit
  [quantity |-> << [quantity |-> "volume", best |-> [unified |-> <<"l", "g">>]] >>],                                                        \* best unit of another quantity
  [quantity |-> << [quantity |-> "time", best |-> [unified |-> <<"h">>]] >>],
  [extend |-> [precedence |-> "before", units |-> [g |-> [names |-> <<"gramme">>, symbols |-> <<"gr">>]]]],
  [extend |-> [precedence |-> "after", units |-> [gram |-> [symbols |-> <<"gm">>, aliases |-> <<"gramo">>]]]],
  [extend |-> [precedence |-> "override", units |-> [min |-> [names |-> <<"minuto">>], h |-> [ratio |-> 3601]]]],
  [extend |-> [units |-> [gr |-> [aliases |-> <<"gx">>]]]],                                                                  \* addresses a unit by a key only an earlier extend adds (gr)
  [extend |-> [units |-> [kg |-> [aliases |-> <<"kilo">>]]]],                                                                \* alias on an SI-expanded unit
  [extend |-> [units |-> [kg |-> [ratio |-> 2]]]],                                                                           \* edits an expanded unit
  [extend |-> [units |-> [g |-> [ratio |-> 2]]]],                                                                            \* the parent of expanded units is re-based: kg, mg ... follow
  [extend |-> [units |-> [lb |-> [ratio |-> 10]]]],                                                                          \* a best unit changes its place in the list
  [extend |-> [units |-> [lb |-> [aliases |-> <<"libra">>]]]],                                                               \* a key that only the extend adds ...
  [quantity |-> << [quantity |-> "mass", best |-> [metric |-> <<"g", "kg">>, imperial |-> <<"oz", "libra">>]] >>],           \* ... named by a best list
  [extend |-> [precedence |-> "override", units |-> [kg |-> [aliases |-> <<>>], min |-> [names |-> <<>>]]]],               \* override with nothing: the list is cleared
  [quantity |-> << [quantity |-> "mass", units |-> [unified |-> << [names |-> <<"stone", "stone">>, symbols |-> <<"st">>, ratio |-> 6350, expand_si |-> FALSE] >>]] >>],   \* one unit, the same key twice
  [extend |-> [units |-> [l |-> [aliases |-> <<"l">>]]]],                                                                      \* an alias the unit already has
  [extend |-> [units |-> [zzz |-> [aliases |-> <<"x">>]]]],                                                                  \* unknown unit
  [extend |-> [units |-> [g |-> [aliases |-> <<"x1">>], gram |-> [aliases |-> <<"x2">>]]]],                                  \* two keys, one unit
  [extend |-> [units |-> [l |-> [symbols |-> <<"lt">>], cup |-> [aliases |-> <<"tsp">>]]]],                                  \* alias collides with another unit
  [si |-> SIAlt("before")], [si |-> SIAlt("after")], [si |-> SIAlt("override")],
  [fractions |-> [unit |-> [nope |-> TRUE]]], [fractions |-> [unit |-> [tsp |-> TRUE, kg |-> FALSE]]],
  [quantity |-> << [quantity |-> "length", units |-> [unified |-> << [names |-> <<"yard">>, symbols |-> <<"yd">>, ratio |-> 91, expand_si |-> TRUE] >>]] >>]  \* expands into existing keys? (kyd ...)
}
MCInit == Init
AddLayer == \E f \in Pool : Len(layers) < MaxLayers /\ AddFile(f)
MCNext == AddLayer \/ Finish1 \/ Finish2 \/ Finish3 \/ Finish4
Finished == phase \in {"built", "rejected"}
\* the file in serde's shape: a [unified |-> list] becomes the bare list
Bare(x) == IF "unified" \in DOMAIN x THEN x.unified ELSE x
SerdeGroup(g) == [k \in DOMAIN g |-> IF k \in {"best", "units"} THEN Bare(g[k]) ELSE g[k]]
SerdeFile(f) == [k \in DOMAIN f |-> IF k = "quantity" THEN [i \in DOMAIN f.quantity |-> SerdeGroup(f.quantity[i])] ELSE f[k]]
UnitView(u) == [names |-> u.names, symbols |-> u.symbols, aliases |-> u.aliases, ratio |-> u.ratio, q |-> u.q, sys |-> u.sys]
BestView == [q \in Quantities |-> IF best[q].has THEN BestLists(best[q].v) ELSE <<>>]
Emit == Finished => PrintT(<<"REPLAY", ToJson([files |-> [i \in DOMAIN layers |-> SerdeFile(layers[i])],
           pred |-> [outcome |-> phase, reason |-> reason, units |-> IF Built THEN [i \in DOMAIN units |-> UnitView(units[i])] ELSE <<>>,
                     index |-> IF Built THEN index ELSE {}, best |-> IF Built THEN BestView ELSE [q \in Quantities |-> <<>>]]])>>)
=============================================================================
