CONSTANTS
  Conv = "bundled"
  MaxLen = 6
  Kind = "nameurl"
INIT Init
NEXT Next
INVARIANTS TypeOk Emit
CHECK_DEADLOCK FALSE
