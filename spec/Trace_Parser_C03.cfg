CONSTANTS
  Clauses = {"Returns", "EventsBracketed"}
INIT TInit
NEXT TNext
CHECK_DEADLOCK FALSE
