CONSTANTS
  Clauses = {"Returns", "EventsBracketed", "AstReturns"}
INIT TInit
NEXT TNext
CHECK_DEADLOCK FALSE
