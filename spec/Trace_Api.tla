----------------------------- MODULE Trace_Api -----------------------------
(* Trace specification for C03: each record is one input x configuration x   *)
(* program; the recorded calls must be accepted by CookApi (every call       *)
(* enabled by the protocol and RETURNED) and the raw event streams must obey *)
(* the event protocol the analysis relies on.                                *)
EXTENDS CookApi, CookSpans, Json, IOUtils
VARIABLES l
Recs == ndJsonDeserialize(IOEnv.TRACE)
Clauses == {"EveryCallReturns", "EventGrammar", "NoHang"}
Holds(c, r) ==
  CASE c = "EveryCallReturns" -> Accepts(r.calls)
    [] c = "EventGrammar"     -> \A i \in DOMAIN r.evks : EventGrammar(r.evks[i])
    [] c = "NoHang"           -> ~r.timeout
Failed(r) == {c \in Clauses : ~Holds(c, r)}
TInit == l = 1 /\ ts = "input" /\ prog = <<>>
TNext == /\ l <= Len(Recs)
         /\ LET f == Failed(Recs[l]) IN IF f = {} THEN TRUE ELSE PrintT(<<"BAD", l, f>>)
         /\ IF l = Len(Recs) THEN PrintT(<<"CONSUMED", l>>) ELSE TRUE
         /\ l' = l + 1 /\ UNCHANGED <<ts, prog>>
=============================================================================
