CONSTANTS
  MaxAdds = 3
INIT Init
NEXT Next
INVARIANTS Conservation Emit
CHECK_DEADLOCK FALSE
