------------------------------ MODULE MC_Convert ------------------------------
(* Enumerates quantity x target for the model converter, checks the design-level  *)
(* facts and prints each case with the exact predicted outcome.                   *)
EXTENDS CookConvert, Json
VARIABLES stage, q, target, kind
vars == <<stage, q, target, kind>>
V4s == {0, 1, 2, 6, 14, 1000, 40000, -8, 3, 959, 960, 961, 4000, 3999}
UnitPool == UnitNames \cup {"bag", ""}
Quantities == { [t |-> "num", lo |-> v, hi |-> v, unit |-> u] : v \in V4s, u \in UnitPool }
              \cup { [t |-> "range", lo |-> 2, hi |-> 14, unit |-> u] : u \in UnitPool } \cup { [t |-> "range", lo |-> 960, hi |-> 4000, unit |-> u] : u \in UnitNames }
              \cup { [t |-> "text", lo |-> 0, hi |-> 0, unit |-> u] : u \in {"g", "bag", ""} }
Init == stage = 0 /\ q = [t |-> "num", lo |-> 0, hi |-> 0, unit |-> ""] /\ target = "" /\ kind = ""
Pick == /\ stage = 0 /\ stage' = 1 /\ q' \in Quantities /\ UNCHANGED <<target, kind>>
Aim  == /\ stage = 1 /\ stage' = 2
        /\ \/ kind' = "unit" /\ target' \in UnitNames \cup {"bag"}
           \/ kind' = "system" /\ target' \in {"metric", "imperial"}
           \/ kind' = "fit" /\ target' = ""
        /\ UNCHANGED q
Next == Pick \/ Aim
Outcome == CASE kind = "unit" -> ToUnit(q, target) [] kind = "system" -> ToSystem(q, target) [] kind = "fit" -> Fit(q)
Done == stage = 2
\* (TLC integers are 32 bit: the cross-multiplied design facts are evaluated on the small values only)
Small == Abs(q.lo) <= 20 /\ Abs(q.hi) <= 20
InvBack == (Done /\ Small /\ kind = "unit" /\ q.t = "num" /\ q.unit \in UnitNames /\ target \in UnitNames) => BackIsIdentity(q.lo, q.unit, target)
InvPreserve == (Done /\ Small /\ q.t # "text" /\ q.unit \in UnitNames) => PreservesAmount(q, Outcome)
InvBestInList == (Done /\ kind = "system" /\ Outcome.ok) => \E i \in DOMAIN Best(Units[q.unit].q, target) : Best(Units[q.unit].q, target)[i] = Outcome.unit
Emit == Done => PrintT(<<"REPLAY", ToJson([q |-> q, kind |-> kind, target |-> target, pred |-> Outcome])>>)
StdEmit == stage = 0 => PrintT(<<"STD", ToJson([defs |-> StdDefs, temp |-> StdTemp])>>)
=============================================================================
