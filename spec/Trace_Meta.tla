------------------------------ MODULE Trace_Meta ------------------------------
(* Trace specification for C14: the metadata of the full parse and of the       *)
(* metadata-only parse of the same input under the same extension set.          *)
EXTENDS Naturals, Sequences, TLC, Json, IOUtils
VARIABLES l
Recs == ndJsonDeserialize(IOEnv.TRACE)
Clauses == {"MetadataOnlyAgreesWithFull", "Returns"}
Holds(c, r) ==
  CASE c = "MetadataOnlyAgreesWithFull" -> (r.full.out /\ r.only.out) => r.full.map = r.only.map
    [] c = "Returns"                    -> r.full.st = "ok" /\ r.only.st = "ok"
Details == {"FullAsSpecified", "OnlyAsSpecified"}
Agrees(d, r) ==
  CASE d = "FullAsSpecified" -> ("pred" \in DOMAIN r /\ r.full.out) => r.full.map = r.pred
    [] d = "OnlyAsSpecified" -> ("pred" \in DOMAIN r /\ r.only.out) => r.only.map = r.pred
Failed(r) == {c \in Clauses : ~Holds(c, r)}
Drift(r)  == {d \in Details : ~Agrees(d, r)}
TInit == l = 1
TNext == /\ l <= Len(Recs)
         /\ LET r == Recs[l] f == Failed(r) d == Drift(r) IN
              /\ IF f = {} THEN TRUE ELSE PrintT(<<"BAD", l, f>>)
              /\ IF d = {} THEN TRUE ELSE PrintT(<<"NOTE", l, d>>)
         /\ IF l = Len(Recs) THEN PrintT(<<"CONSUMED", l>>) ELSE TRUE
         /\ l' = l + 1
=============================================================================
