------------------------------ MODULE MC_Api ------------------------------
(* Every program of the API protocol up to MaxCalls calls, printed for replay. *)
EXTENDS CookApi, Json
CONSTANTS MaxCalls
MCNext == Len(prog) < MaxCalls /\ Next
\* only programs that exercise a consumer are worth running: those that reached a recipe
Emit == (ts \in {"scalable", "scaled"} /\ Len(prog) >= 3) => PrintT(<<"REPLAY", ToJson([prog |-> prog])>>)
=============================================================================
