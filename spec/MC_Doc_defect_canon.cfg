CONSTANTS
  Ext <- NoExtensions
  Conv = "empty"
  Variants = FALSE
  Syntax <- SyntaxAsExt
  Defects = TRUE
  Mode = "bfs"
  Kernel = "defect"
  MaxBlocks = 2
  MaxItems = 3
  MaxComps = 3
INIT Init
NEXT Next
INVARIANTS InvConsistent InvValidity Emit
CHECK_DEADLOCK FALSE
