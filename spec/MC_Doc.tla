------------------------------- MODULE MC_Doc -------------------------------
(* Instances of the document generator: exhaustive kernels (Mode = "bfs") and  *)
(* random walks over the full vocabulary (Mode = "sim").                       *)
EXTENDS CookDoc
AllExtensions == AllExt
NoExtensions == {}
SyntaxAsExt == Ext
OnlyAlias == {"ALIAS"}
OnlyRange == {"RANGE"}
OnlyAdvanced == {"ADVANCED_UNITS"}
OnlyModes == {"MODES"}
OnlyInline == {"INLINE"}
ModifiersOnly == {"MODIFIERS"}
ModifiersAndIntermediate == {"MODIFIERS", "INTERMEDIATE"}
StopWhenDone == ~Done     \* state constraint: nothing is explored beyond a finished document
=============================================================================
