------------------------------- MODULE CookMeta -------------------------------
(***************************************************************************)
(* M12: interpretation of the standard metadata keys (src/metadata.rs) as  *)
(* a generator of DOCUMENTED value shapes with the reading each must have, *)
(* and of out-of-form values whose reading is "warning at parse time,      *)
(* nothing from the accessor".  A behaviour picks a key, a value shape and *)
(* a spelling; numbers travel as decimal strings.  Durations are computed  *)
(* exactly in seconds and rounded to minutes (half away from zero), which  *)
(* is what "the rounded total of minutes" means.                           *)
(***************************************************************************)
EXTENDS Naturals, Sequences, FiniteSets, TLC, Json

CONSTANTS Conv       \* "bundled" | "empty" | "renamed": which time unit names the converter knows

\* spellings of the four time units each converter knows (metadata.rs hard-coded list for the empty converter,
\* units.toml for the bundled one, the harness' Spanish units file for the renamed one)
UnitNames(q) ==
  CASE Conv = "bundled" -> (CASE q = "s" -> {"s", "sec", "secs", "second", "seconds"} [] q = "m" -> {"min", "mins", "minute", "minutes"}
                              [] q = "h" -> {"h", "hour", "hours"} [] q = "d" -> {"d", "day", "days"})
    [] Conv = "empty"   -> (CASE q = "s" -> {"s", "sec", "secs", "second", "seconds"} [] q = "m" -> {"m", "min", "minute", "minutes"}
                              [] q = "h" -> {"h", "hour", "hours"} [] q = "d" -> {"d", "day", "days"})
    [] Conv = "renamed" -> (CASE q = "s" -> {"segundo", "segundos"} [] q = "m" -> {"min", "minuto", "minutos"}
                              [] q = "h" -> {"hora", "horas"} [] q = "d" -> {"dia", "dias"})
Secs(q) == CASE q = "s" -> 1 [] q = "m" -> 60 [] q = "h" -> 3600 [] q = "d" -> 86400
RoundMin(totalSecs) == (totalSecs + 30) \div 60
S(n) == ToString(n)

VARIABLES stage, key, val, style, pred
\* val: chunks of the value as written; pred: [t |-> "minutes"|"servings"|"tags"|"nameurl"|"locale"|"none", ...]
vars == <<stage, key, val, style, pred>>
None == [t |-> "none"]
Minutes(n) == [t |-> "minutes", n |-> S(n)]

Hs == {0, 1, 2, 25}
Ms == {0, 1, 30, 59, 61}
Ss == {0, 20, 30, 90}
Ds == {0, 1}
TimeKeys == {"time", "prep time", "cook time", "duration"}

\* ---- duration shapes ------------------------------------------------------------------------------------
\* plain number of minutes
PlainMinutes == { [val |-> <<S(n)>>, pred |-> Minutes(n), number |-> TRUE] : n \in {0, 1, 45, 90, 600, 100000} }
\* compact HhMm
Compact == { [val |-> (IF h > 0 THEN <<S(h), "h">> ELSE <<>>) \o (IF m > 0 \/ h = 0 THEN <<S(m), "m">> ELSE <<>>),
              pred |-> Minutes(h * 60 + m), number |-> FALSE] : h \in Hs, m \in Ms }
\* number-unit pairs, three spacings, the first and the last name of each unit
First(Sset) == CHOOSE x \in Sset : \A y \in Sset : x = y \/ TRUE
Part(n, q, name, tight) == IF n = 0 THEN <<>> ELSE (IF tight THEN <<S(n), name>> ELSE <<S(n), " ", name>>)
Join(parts) == IF Len(parts) = 0 THEN <<>> ELSE IF Len(parts) = 1 THEN parts[1]
               ELSE IF Len(parts) = 2 THEN parts[1] \o <<" ">> \o parts[2]
               ELSE IF Len(parts) = 3 THEN parts[1] \o <<" ">> \o parts[2] \o <<" ">> \o parts[3]
               ELSE parts[1] \o <<" ">> \o parts[2] \o <<" ">> \o parts[3] \o <<" ">> \o parts[4]
NonEmpty(ps) == SelectSeq(ps, LAMBDA p : p # <<>>)
Pairs == { [val |-> Join(NonEmpty(<<Part(d, "d", nd, tight), Part(h, "h", nh, tight), Part(m, "m", nm, tight), Part(s, "s", ns, tight)>>)),
            pred |-> Minutes(RoundMin(d * 86400 + h * 3600 + m * 60 + s)), number |-> FALSE] :
            d \in Ds, h \in Hs, m \in Ms, s \in Ss, tight \in BOOLEAN,
            nd \in {First(UnitNames("d"))}, nh \in UnitNames("h"), nm \in {First(UnitNames("m"))}, ns \in UnitNames("s") }
PairsOk == { p \in Pairs : p.val # <<>> }
Decimals == { [val |-> <<"1.5 ", First(UnitNames("h"))>>, pred |-> Minutes(90), number |-> FALSE],
              [val |-> <<"0.5", First(UnitNames("d"))>>, pred |-> Minutes(720), number |-> FALSE],
              [val |-> <<"2.5 ", First(UnitNames("m")), " 30 ", First(UnitNames("s"))>>, pred |-> Minutes(3), number |-> FALSE],
              [val |-> <<"90 ", First(UnitNames("s"))>>, pred |-> Minutes(2), number |-> FALSE],
              [val |-> <<"89 ", First(UnitNames("s"))>>, pred |-> Minutes(1), number |-> FALSE] }
\* out of the documented forms: a warning and nothing from the accessor, never a wrong number
BadTimes == { [val |-> <<x>>, pred |-> None, number |-> FALSE] :
              x \in {"soon", "1 lightyear", "-5", "inf", "NaN", "4294967296", "99999999999 min", "71582789h", "1h4294967295m", "-1h",
                     "1h30", "h", "1.5.5 h", "1 h 30", "5 m in", "1e400", "+", "4294967295h", "71582789h1m",
                     "30m1h", "5m5m", "1h20m10m", "10m2h5m", "1h2h", "1m1h1m", "m", "hm", "1hm"} }
\* a sign is not part of the documented number-unit form, even when the total stays positive
SignedTimes == { [val |-> v, pred |-> None, number |-> FALSE] :
                 v \in { <<"1", First(UnitNames("h")), " -30", First(UnitNames("m"))>>, <<"1 ", First(UnitNames("d")), " -12 ", First(UnitNames("h"))>>,
                         <<"1", First(UnitNames("h")), " +15", First(UnitNames("m"))>>, <<"10 ", First(UnitNames("m")), " -0.4 ", First(UnitNames("m"))>>,
                         <<"+5 ", First(UnitNames("m"))>>, <<"2 ", First(UnitNames("h")), " - 30 ", First(UnitNames("m"))>>,
                         <<"1e1 ", First(UnitNames("m"))>>, <<"5 ", First(UnitNames("m")), " 3">>, <<"5", First(UnitNames("m")), First(UnitNames("m"))>> } }
BoundaryTimes == { [val |-> <<"71582788h15m">>, pred |-> [t |-> "minutes", n |-> "4294967295"], number |-> FALSE],
                   [val |-> <<"4294967295">>, pred |-> [t |-> "minutes", n |-> "4294967295"], number |-> TRUE],
                   [val |-> <<"71582788h16m">>, pred |-> None, number |-> FALSE] }
TimeShapes == PlainMinutes \cup Compact \cup PairsOk \cup Decimals \cup BadTimes \cup SignedTimes \cup BoundaryTimes

\* ---- servings ---------------------------------------------------------------------------------------------
Servings(ns) == [t |-> "servings", ns |-> [i \in DOMAIN ns |-> S(ns[i])]]
ServingShapes ==
  { [val |-> <<"4">>, yaml |-> "number", pred |-> Servings(<<4>>)], [val |-> <<"2|4">>, yaml |-> "string", pred |-> Servings(<<2, 4>>)],
    [val |-> <<"2 | 4 | 8">>, yaml |-> "string", pred |-> Servings(<<2, 4, 8>>)], [val |-> <<"3 cups worth">>, yaml |-> "string", pred |-> Servings(<<3>>)],
    [val |-> <<"6|2">>, yaml |-> "string", pred |-> Servings(<<6, 2>>)], [val |-> <<"4 | 2 | 8">>, yaml |-> "string", pred |-> Servings(<<4, 2, 8>>)],
    [val |-> <<"[2, 4]">>, yaml |-> "raw", pred |-> Servings(<<2, 4>>)], [val |-> <<"[6, ", "QUOTE", "2 cups", "QUOTE", ", 4]">>, yaml |-> "raw", pred |-> Servings(<<6, 2, 4>>)],
    [val |-> <<"2|2">>, yaml |-> "string", pred |-> None], [val |-> <<"2|4|2">>, yaml |-> "string", pred |-> None],
    [val |-> <<"[3, 1, 3]">>, yaml |-> "raw", pred |-> None], [val |-> <<"[6, ", "QUOTE", "2 cups", "QUOTE", ", 4, 6]">>, yaml |-> "raw", pred |-> None],
    [val |-> <<"many">>, yaml |-> "string", pred |-> None], [val |-> <<"2.5">>, yaml |-> "rawnumber", pred |-> None],      \* (as a `>>` string "2.5" has the leading number 2)
    [val |-> <<"-1">>, yaml |-> "number", pred |-> None], [val |-> <<"4294967296">>, yaml |-> "number", pred |-> None],
    [val |-> <<"2|">>, yaml |-> "string", pred |-> None], [val |-> <<"{a: 1}">>, yaml |-> "raw", pred |-> None] }
\* ---- tags ---------------------------------------------------------------------------------------------------
Tags(ts) == [t |-> "tags", ts |-> ts]
TagShapes ==
  { [val |-> <<"a, b">>, yaml |-> "string", pred |-> Tags(<<"a", "b">>)], [val |-> <<"a,,b , a">>, yaml |-> "string", pred |-> Tags(<<"a", "b">>)],
    [val |-> <<"one tag">>, yaml |-> "string", pred |-> Tags(<<"one tag">>)], [val |-> <<"[a, b, a]">>, yaml |-> "raw", pred |-> Tags(<<"a", "b">>)],
    [val |-> <<"[a, ", "QUOTE", " b ", "QUOTE", ", ", "QUOTE", "QUOTE", "]">>, yaml |-> "raw", pred |-> Tags(<<"a", "b">>)],
    [val |-> <<"[2024, x]">>, yaml |-> "raw", pred |-> Tags(<<"2024", "x">>)],
    [val |-> <<"{a: 1}">>, yaml |-> "raw", pred |-> None], [val |-> <<"[[a], b]">>, yaml |-> "raw", pred |-> None], [val |-> <<"true">>, yaml |-> "raw", pred |-> None] }
\* ---- author / source: the seven documented forms -----------------------------------------------------------------
NU(n, u) == [t |-> "nameurl", name |-> n, url |-> u]
NameUrlShapes ==
  { [val |-> <<"Rachel <https://r.example/x>">>, yaml |-> "string", pred |-> NU("Rachel", "https://r.example/x")],
    [val |-> <<"Rachel <nourl>">>, yaml |-> "string", pred |-> NU("Rachel <nourl>", "")],
    [val |-> <<"Rachel">>, yaml |-> "string", pred |-> NU("Rachel", "")],
    [val |-> <<"not a url">>, yaml |-> "string", pred |-> NU("not a url", "")],
    [val |-> <<"<nourl>">>, yaml |-> "string", pred |-> NU("<nourl>", "")],
    [val |-> <<"https://r.example">>, yaml |-> "string", pred |-> NU("", "https://r.example")],
    [val |-> <<"<https://r.example/a b>">>, yaml |-> "string", pred |-> NU("", "https://r.example/a b")],
    [val |-> <<"Mom <http://>">>, yaml |-> "string", pred |-> NU("Mom <http://>", "")],
    [val |-> <<"{name: Rachel, url: ", "QUOTE", "https://r.example", "QUOTE", "}">>, yaml |-> "raw", pred |-> NU("Rachel", "https://r.example")],
    \* a mapping gives name and/or url: either field alone is enough, other fields are ignored, a field that is not a string counts as absent
    [val |-> <<"{name: Rachel}">>, yaml |-> "raw", pred |-> NU("Rachel", "")],
    [val |-> <<"{url: ", "QUOTE", "https://r.example", "QUOTE", "}">>, yaml |-> "raw", pred |-> NU("", "https://r.example")],
    [val |-> <<"{name: Rachel, x: 1}">>, yaml |-> "raw", pred |-> NU("Rachel", "")],
    [val |-> <<"{name: Rachel, url: 5}">>, yaml |-> "raw", pred |-> NU("Rachel", "")],
    [val |-> <<"{name: 5, url: ", "QUOTE", "https://r.example", "QUOTE", "}">>, yaml |-> "raw", pred |-> NU("", "https://r.example")],
    [val |-> <<"{name: 5}">>, yaml |-> "raw", pred |-> None], [val |-> <<"{}">>, yaml |-> "raw", pred |-> None],
    [val |-> <<"[a, b]">>, yaml |-> "raw", pred |-> None], [val |-> <<"{x: 1}">>, yaml |-> "raw", pred |-> None] }
\* ---- locale ----------------------------------------------------------------------------------------------------------
LocaleShapes ==
  { [val |-> <<"en">>, yaml |-> "string", pred |-> [t |-> "locale", lang |-> "en", dial |-> ""]],
    [val |-> <<"en_GB">>, yaml |-> "string", pred |-> [t |-> "locale", lang |-> "en", dial |-> "GB"]],
    [val |-> <<"es_es">>, yaml |-> "string", pred |-> [t |-> "locale", lang |-> "es", dial |-> "es"]],
    [val |-> <<"eng">>, yaml |-> "string", pred |-> None], [val |-> <<"en-GB">>, yaml |-> "string", pred |-> None],
    [val |-> <<"en_GBR">>, yaml |-> "string", pred |-> None], [val |-> <<"e1">>, yaml |-> "string", pred |-> None],
    [val |-> <<"en_">>, yaml |-> "string", pred |-> None], [val |-> <<"12">>, yaml |-> "number", pred |-> None],
    [val |-> <<"en_GB_posix">>, yaml |-> "string", pred |-> None], [val |-> <<"pt_BR_">>, yaml |-> "string", pred |-> None],
    [val |-> <<"_GB">>, yaml |-> "string", pred |-> None], [val |-> <<"en__GB">>, yaml |-> "string", pred |-> None] }

Init == stage = 0 /\ key = "" /\ val = <<>> /\ style = "" /\ pred = None
\* style: "old" = `>> key: value` (always a string), "yaml" = front matter (string quoted, number bare, raw as written)
ChooseTime == /\ stage = 0 /\ stage' = 1
              /\ \E k \in TimeKeys, sh \in TimeShapes, st \in {"old", "yamlstring", "yamlnumber"} :
                   /\ (st = "yamlnumber" => sh.number)
                   /\ key' = k /\ val' = sh.val /\ style' = st /\ pred' = sh.pred
ChooseOther == /\ stage = 0 /\ stage' = 1
               /\ \E g \in {[k |-> "servings", shapes |-> ServingShapes], [k |-> "serves", shapes |-> ServingShapes], [k |-> "tags", shapes |-> TagShapes],
                            [k |-> "author", shapes |-> NameUrlShapes], [k |-> "source", shapes |-> NameUrlShapes],
                            [k |-> "locale", shapes |-> LocaleShapes]} :
                    \E sh \in g.shapes, st \in {"old", "yaml"} :
                      /\ (st = "old" => sh.yaml = "string" \/ (sh.yaml = "number" /\ g.k # "locale"))
                      /\ key' = g.k /\ val' = sh.val /\ pred' = sh.pred
                      /\ style' = IF st = "old" THEN "old" ELSE IF sh.yaml = "string" THEN "yamlstring" ELSE IF sh.yaml = "number" THEN "yamlnumber" ELSE "yamlraw"
Next == ChooseTime \/ ChooseOther
Done == stage = 1
\* a bare number read through `>>` is the string "12": for a locale that is out of form as well, for the others the same reading
Emit == Done => PrintT(<<"REPLAY", ToJson([key |-> key, val |-> val, style |-> style, conv |-> Conv, pred |-> pred])>>)

\* ---- C13 as a predicate over one observation o = [warned, acc] against the prediction p ------------------------------------
Reading(p, o) == o.acc = p
WarningIffNothing(o) == o.warned <=> (o.acc = None)
=============================================================================
