CONSTANTS
  Threads = {"t1", "t2"}
  Inputs = {"a", "b"}
  MaxCalls = 3
INIT Init
NEXT Next
INVARIANTS Deterministic
CHECK_DEADLOCK FALSE
