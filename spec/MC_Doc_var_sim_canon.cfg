CONSTANTS
  Ext <- NoExtensions
  Conv = "empty"
  Variants = TRUE
  Syntax <- SyntaxAsExt
  Defects = FALSE
  Mode = "sim"
  Kernel = "full"
  MaxBlocks = 7
  MaxItems = 6
  MaxComps = 8
INIT InitCRLF
NEXT Next
INVARIANTS InvConsistent InvValidRefs InvValidity Emit
CHECK_DEADLOCK FALSE
