------------------------------ MODULE CookConvert ------------------------------
(***************************************************************************)
(* M6: unit conversion (src/convert/mod.rs: Converter::convert,            *)
(* ScaledQuantity::{convert, fit}, best unit selection) over the MODEL     *)
(* converter (harness/cookverif/src/group.rs MODEL_UNITS): integer ratios  *)
(* and offsets, so every conversion has an exact rational result n/d that  *)
(* TLC computes.  Values are quarter units (v4 = 4 * value).               *)
(* StdDefs holds the real-world definitions of the BUNDLED units as exact  *)
(* decimal strings; TLC only carries them, the IEEE evaluation is the      *)
(* harness' (DESIGN section 7).                                            *)
(***************************************************************************)
EXTENDS Naturals, Integers, Sequences, FiniteSets, TLC

Unit(q, r, d, sys) == [q |-> q, r |-> r, d |-> d, sys |-> sys]
Units == [ml |-> Unit("volume", 1, 0, "metric"), l |-> Unit("volume", 1000, 0, "metric"), tsp |-> Unit("volume", 5, 0, "imperial"),
          c |-> Unit("volume", 240, 0, "imperial"), g |-> Unit("mass", 1, 0, "metric"), kg |-> Unit("mass", 1000, 0, "metric"),
          oz |-> Unit("mass", 28, 0, "imperial"), lb |-> Unit("mass", 454, 0, "imperial"), cm |-> Unit("length", 1, 0, "none"),
          s |-> Unit("time", 1, 0, "none"), min |-> Unit("time", 60, 0, "none"), h |-> Unit("time", 3600, 0, "none"),
          C |-> Unit("temperature", 1, 273, "metric"), X |-> Unit("temperature", 2, 10, "imperial")]
UnitNames == DOMAIN Units
\* best lists as the builder keeps them: sorted by ratio; unified lists answer for both systems
Best(q, sys) == CASE q = "volume" -> (IF sys = "metric" THEN <<"ml", "l">> ELSE <<"tsp", "c">>)
                  [] q = "mass" -> (IF sys = "metric" THEN <<"g", "kg">> ELSE <<"oz", "lb">>)
                  [] q = "length" -> <<"cm">>
                  [] q = "time" -> <<"s", "min", "h">>
                  [] q = "temperature" -> (IF sys = "metric" THEN <<"C">> ELSE <<"X">>)
Abs(i) == IF i < 0 THEN -i ELSE i

\* convert_f64 on v = v4/4:  ((v + d_f) * r_f / r_t) - d_t  as the exact fraction n/d
Conv(v4, f, t) == [n |-> (v4 + 4 * Units[f].d) * Units[f].r - 4 * Units[t].r * Units[t].d, d |-> 4 * Units[t].r]
\* BestConversions::best_unit: the last unit whose threshold (1 of it, in the base unit of the list) is reached by |value|, with 0.001 slack
\* norm = Conv(|v4|, f, base) ; threshold_i = Conv(4, unit_i, base) ; both over the same denominator 4 * r_base
BestUnit(list, v4, f) ==
  LET base == list[1]
      norm == Conv(Abs(v4), f, base).n                       \* x 4 r_base
      th(i) == Conv(4, list[i], base).n                      \* x 4 r_base
      \* norm >= th - 0.001 in units of 1/(4 r_base): both sides are integers and the slack 0.004 r_base is below 1
      \* for every base unit of the model converter (r_base <= 28), so the comparison is exact without it
      reached == {i \in DOMAIN list : norm >= th(i)}
  IN IF reached = {} THEN list[1] ELSE list[CHOOSE i \in reached : \A k \in reached : k <= i]

\* a quantity: [t |-> "num" | "range" | "text", lo, hi, unit]   (unit "" = none)
\* outcome of ScaledQuantity::convert to a unit / to a system: [ok, err, unit, lo, hi] with lo, hi fractions
Fail(e) == [ok |-> FALSE, err |-> e, unit |-> "", lo |-> [n |-> 0, d |-> 1], hi |-> [n |-> 0, d |-> 1]]
ToUnit(q, t) == IF q.unit = "" THEN Fail("NoUnit")
                ELSE IF q.unit \notin UnitNames THEN Fail("UnknownUnit")
                ELSE IF q.t = "text" THEN Fail("TextValue")
                ELSE IF t \notin UnitNames THEN Fail("UnknownUnit")
                ELSE IF Units[q.unit].q # Units[t].q THEN Fail("MixedQuantities")
                ELSE [ok |-> TRUE, err |-> "", unit |-> t, lo |-> Conv(q.lo, q.unit, t), hi |-> Conv(q.hi, q.unit, t)]
ToSystem(q, sys) == IF q.unit = "" THEN Fail("NoUnit")
                    ELSE IF q.unit \notin UnitNames THEN Fail("UnknownUnit")
                    ELSE IF q.t = "text" THEN Fail("TextValue")
                    ELSE LET lst == Best(Units[q.unit].q, sys)
                             b == BestUnit(lst, q.lo, q.unit)
                         \* alts: the amount in EVERY unit of the designated list - the property leaves the choice among them open
                         IN [ok |-> TRUE, err |-> "", unit |-> b, lo |-> Conv(q.lo, q.unit, b), hi |-> Conv(q.hi, q.unit, b),
                             alts |-> [i \in DOMAIN lst |-> [unit |-> lst[i], lo |-> Conv(q.lo, q.unit, lst[i]), hi |-> Conv(q.hi, q.unit, lst[i])]]]
\* fit = best unit of the unit's own system (the default system, metric, for units without one)
Fit(q) == IF q.unit = "" \/ q.unit \notin UnitNames THEN [ok |-> TRUE, err |-> "unchanged", unit |-> q.unit, lo |-> [n |-> q.lo, d |-> 4], hi |-> [n |-> q.hi, d |-> 4]]
          ELSE ToSystem(q, IF Units[q.unit].sys = "none" THEN "metric" ELSE Units[q.unit].sys)

\* design-level facts checked by TLC on the model: conversion there and back is the identity, via a third unit equals direct,
\* the best unit belongs to the designated list and the amount is the same in base units
SameAmount(x, y) == x.n * y.d = y.n * x.d
BackIsIdentity(v4, f, t) == Units[f].q = Units[t].q => LET a == Conv(v4, f, t) IN
                               \* converting the fraction a.n/a.d back: ((a + d_t) r_t / r_f) - d_f
                               (a.n + a.d * Units[t].d) * Units[t].r * 4 - 4 * a.d * Units[f].r * Units[f].d = v4 * a.d * Units[f].r
BaseAmount(v, u) == [n |-> (v.n + v.d * Units[u].d) * Units[u].r, d |-> v.d]     \* (value + offset) * ratio
PreservesAmount(q, out) == out.ok => SameAmount(BaseAmount([n |-> q.lo, d |-> 4], q.unit), BaseAmount(out.lo, out.unit))

\* ---- the real-world definitions of the bundled units (exact decimal strings; base units: litre, gram, metre, second, kelvin) ----
StdDefs == [ l |-> "1", ml |-> "0.001", cl |-> "0.01", dl |-> "0.1", dal |-> "10", hl |-> "100", kl |-> "1000",
             tsp |-> "0.00492892159375", tbsp |-> "0.01478676478125", floz |-> "0.0295735295625", c |-> "0.2365882365",
             pt |-> "0.473176473", qt |-> "0.946352946", gal |-> "3.785411784",
             g |-> "1", mg |-> "0.001", cg |-> "0.01", dg |-> "0.1", dag |-> "10", hg |-> "100", kg |-> "1000",
             oz |-> "28.349523125", lb |-> "453.59237",
             m |-> "1", mm |-> "0.001", cm |-> "0.01", dm |-> "0.1", dam |-> "10", hm |-> "100", km |-> "1000", ft |-> "0.3048", in |-> "0.0254",
             s |-> "1", min |-> "60", h |-> "3600", d |-> "86400" ]
\* temperature: kelvin = (value + offset) * ratio
StdTemp == [ C |-> [ratio |-> "1", offset |-> "273.15"], F |-> [ratio |-> "0.5555555555555556", offset |-> "459.67"] ]
=============================================================================
