CONSTANTS
  Conv = "bundled"
  MaxLen = 5
  Kind = "nameurl"
INIT Init
NEXT Next
INVARIANTS TypeOk Emit
CHECK_DEADLOCK FALSE
