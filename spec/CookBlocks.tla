------------------------------ MODULE CookBlocks ------------------------------
(***************************************************************************)
(* M2: the two block scanners of src/parser/mod.rs at the level of LINES:  *)
(*   Full  - PullParser::next_block + parse_block: blank/comment-only      *)
(*           lines separate blocks, a line whose FIRST token is `>>` or    *)
(*           `=` is a block of its own, a `>>` block is metadata when it   *)
(*           has a `:` and (old-style metadata is on, or it is a config    *)
(*           key and MODES is on);                                         *)
(*   Scan  - next_metadata_block: nothing at all after a front matter,     *)
(*           otherwise every `>>` token that directly follows a newline    *)
(*           token (or starts the input), up to the end of the line.       *)
(* A line that ends in a backslash has no newline TOKEN (the lexer folds   *)
(* `\` + LF into one escaped token), so the next physical line continues   *)
(* it for both scanners.  Both event lists are folded through              *)
(* CookAnalysis!AMeta; C14 says the resulting metadata maps are equal.     *)
(***************************************************************************)
EXTENDS CookAnalysis

\* a line: [k |-> kind, key |-> ..., val |-> ..., chunks |-> spelling]
MetaLine(k, v)   == [k |-> "meta", key |-> k, val |-> v, chunks |-> <<">> ", k, ": ", v>>]
TightMeta(k, v)  == [k |-> "meta", key |-> k, val |-> v, chunks |-> <<">>", k, ":", v>>]
LinePool ==
  { MetaLine("k", "v"), MetaLine("j", "w x"), TightMeta("k", "u"), MetaLine("servings", "2"),
    [k |-> "meta", key |-> "[mode]", val |-> "steps", chunks |-> <<">> [mode]: steps">>],
    [k |-> "meta", key |-> "[foo]", val |-> "x", chunks |-> <<">> [foo]: x">>],
    \* comments inside an entry: removed from the key and the value by both scanners; the rest of the line still belongs to it
    [k |-> "meta", key |-> "k", val |-> "v  w", chunks |-> <<">> k: v [- c -] w">>],
    [k |-> "meta", key |-> "j", val |-> "x", chunks |-> <<">> j [- c -]: x">>],
    [k |-> "meta", key |-> "m", val |-> "1", chunks |-> <<">> m: 1 -- c">>],
    [k |-> "meta", key |-> "m", val |-> "2", chunks |-> <<">> m: 2 [- c -]">>],
    [k |-> "nocolon", key |-> "", val |-> "", chunks |-> <<">> no colon here">>],
    [k |-> "wsmeta", key |-> "", val |-> "", chunks |-> <<" >> k: indented">>],
    [k |-> "midmeta", key |-> "", val |-> "", chunks |-> <<"text >> k: inline">>],
    [k |-> "blank", key |-> "", val |-> "", chunks |-> <<>>],
    [k |-> "blank", key |-> "", val |-> "", chunks |-> <<"  ">>],
    [k |-> "blank", key |-> "", val |-> "", chunks |-> <<"-- only a comment">>],
    [k |-> "blank", key |-> "", val |-> "", chunks |-> <<"[- block -]  ">>],
    [k |-> "text", key |-> "", val |-> "", chunks |-> <<"word @a{1}">>],
    [k |-> "text", key |-> "", val |-> "", chunks |-> <<"> note">>],
    [k |-> "text", key |-> "", val |-> "", chunks |-> <<"= section">>],
    [k |-> "textesc", key |-> "", val |-> "", chunks |-> <<"ends with ", "BS">>],
    [k |-> "opencomment", key |-> "", val |-> "", chunks |-> <<"text [- open">>],
    [k |-> "closecomment", key |-> "", val |-> "", chunks |-> <<"close -] >> k: after">>] }

\* which lines START a token line: a line after "textesc" continues it; lines inside an open block comment are comment
RECURSIVE Starts(_, _, _, _, _)
\* state: esc (previous line ended in an escape), open (inside a block comment)
\* with CR LF line ends the backslash escapes the CR and the LF is still a newline token: nothing is glued
Starts(ls, i, esc, open, crlf) ==
  IF i > Len(ls) THEN <<>>
  ELSE LET l == ls[i]
           \* `-]` anywhere in the line ends an open comment (a `[-` inside a comment opens nothing)
           closes == open /\ (l.k = "closecomment" \/ l.chunks \in {<<"[- block -]  ">>, <<">> k: v [- c -] w">>, <<">> j [- c -]: x">>, <<">> m: 2 [- c -]">>})
           stillOpen == open /\ ~closes
           \* the line is lexed as tokens of its own only if we are not inside a comment; an escaped newline glues it
           own == ~open /\ ~esc
       IN << own >> \o Starts(ls, i + 1, (~open /\ l.k = "textesc" /\ ~crlf), (stillOpen \/ (~open /\ l.k = "opencomment")), crlf)
\* indices of the lines both scanners may recognise as a `>>` entry: first token of a token line is `>>` and there is a colon
MetaIdx(ls, crlf) == LET st == Starts(ls, 1, FALSE, FALSE, crlf) IN SelectSeq([i \in DOMAIN ls |-> IF st[i] /\ ls[i].k = "meta" THEN i ELSE 0], LAMBDA x : x > 0)

FullEntries(ls, oldStyle, crlf) == SelectSeq(MetaIdx(ls, crlf), LAMBDA i : oldStyle \/ (IsConfigKey(ls[i].key) /\ "MODES" \in Ext))
ScanEntries(ls, oldStyle, crlf) == IF oldStyle THEN MetaIdx(ls, crlf) ELSE <<>>

RECURSIVE FoldMeta(_, _, _, _)
FoldMeta(a, ls, idx, i) == IF i > Len(idx) THEN a ELSE FoldMeta(AMeta(a, ls[idx[i]].key, ls[idx[i]].val), ls, idx, i + 1)
\* fm: the front matter entries (<<>> = none)
StartState(fm) == IF fm = <<>> THEN A0 ELSE AFrontMatter(A0, fm, TRUE)
FullMap(ls, fm, crlf) == FoldMeta(StartState(fm), ls, FullEntries(ls, fm = <<>>, crlf), 1).meta
ScanMap(ls, fm, crlf) == FoldMeta(StartState(fm), ls, ScanEntries(ls, fm = <<>>, crlf), 1).meta
MetaScanAgrees(ls, fm, crlf) == FullMap(ls, fm, crlf) = ScanMap(ls, fm, crlf)
=============================================================================
