------------------------------ MODULE MC_Combine ------------------------------
(* Every list of up to MaxLen ingredients from a pool, every selection sequence   *)
(* of up to MaxSel indices (which includes every permutation and every sub-list): *)
(* checks order independence on the model and prints each case.                   *)
EXTENDS CookCombine, Json
CONSTANTS MaxLen, MaxSel
VARIABLES list, sel, stage
Num(v, u) == [t |-> "number", lo |-> v, hi |-> v, txt |-> "", unit |-> u]
Rg(a, b, u) == [t |-> "range", lo |-> a, hi |-> b, txt |-> "", unit |-> u]
Tx(s, u) == [t |-> "text", lo |-> 0, hi |-> 0, txt |-> s, unit |-> u]
Pool == { [name |-> "salt", amount |-> Num(4, "g")], [name |-> "salt", amount |-> Num(6, "g")], [name |-> "salt", amount |-> Num(2, "tsp")],
          [name |-> "salt", amount |-> Rg(4, 8, "g")], [name |-> "salt", amount |-> Rg(8, 16, "g")], [name |-> "salt", amount |-> Tx("pinch", "")],
          [name |-> "salt", amount |-> NoAmount], [name |-> "oil", amount |-> Num(4, "g")], [name |-> "oil", amount |-> Num(10, "")],
          \* a unit that differs from another one only in letter case is another unit
          [name |-> "salt", amount |-> Num(2, "G")],
          \* an amount of zero is an amount: its key is present in the result like any other
          [name |-> "salt", amount |-> Num(0, "tsp")], [name |-> "oil", amount |-> Num(0, "ml")] }
Init == list = <<>> /\ sel = <<>> /\ stage = "list"
AddItem == stage = "list" /\ Len(list) < MaxLen /\ \E i \in Pool : list' = Append(list, i) /\ UNCHANGED <<sel, stage>>
StartSel == stage = "list" /\ list # <<>> /\ stage' = "sel" /\ UNCHANGED <<list, sel>>
AddSel == stage = "sel" /\ Len(sel) < MaxSel /\ \E k \in DOMAIN list : k \notin {sel[j] : j \in DOMAIN sel} /\ sel' = Append(sel, k) /\ UNCHANGED <<list, stage>>
Close == stage = "sel" /\ stage' = "done" /\ UNCHANGED <<list, sel>>
Next == AddItem \/ StartSel \/ AddSel \/ Close
\* order independence: the numeric result only depends on the SET of selected positions
SortedSel == LET S == {sel[j] : j \in DOMAIN sel} IN [k \in 1..Cardinality(S) |-> CHOOSE x \in S : Cardinality({y \in S : y < x}) = k - 1]
InvOrderIndependent == stage = "done" => Combined(Picked(list, sel)) = Combined(Picked(list, SortedSel))
Emit == stage = "done" => PrintT(<<"REPLAY", ToJson([list |-> list, sel |-> sel, combined |-> Combined(Picked(list, sel)), keys |-> Keys(Picked(list, sel))])>>)
=============================================================================
