CONSTANTS
  Clauses = {"SpansOk", "LabelsOk", "FragmentsFaithful", "EventsOrdered", "ReportRenders"}
INIT TInit
NEXT TNext
CHECK_DEADLOCK FALSE
