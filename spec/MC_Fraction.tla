----------------------------- MODULE MC_Fraction -----------------------------
(* Explores the whole grid x parameter space of CookFraction, checks C12 on    *)
(* the model's own answers and prints every point for replay into the real      *)
(* Number::new_approx.  The point is chosen coordinate by coordinate so that    *)
(* the search fans out over the workers.                                        *)
EXTENDS CookFraction, Json
CONSTANTS Wholes, MaxDens, Accs, MaxWholes, JStep
VARIABLES stage, W, j, acc, maxDen, maxWhole
vars == <<stage, W, j, acc, maxDen, maxWhole>>

Init == stage = 0 /\ W = 0 /\ j = 0 /\ acc = 0 /\ maxDen = 1 /\ maxWhole = 0
Next == \/ stage = 0 /\ stage' = 1 /\ W' \in Wholes /\ UNCHANGED <<j, acc, maxDen, maxWhole>>
        \/ stage = 1 /\ stage' = 2 /\ maxDen' \in MaxDens /\ UNCHANGED <<W, j, acc, maxWhole>>
        \/ stage = 2 /\ stage' = 3 /\ acc' \in Accs /\ UNCHANGED <<W, j, maxDen, maxWhole>>
        \/ stage = 3 /\ stage' = 4 /\ maxWhole' \in MaxWholes /\ UNCHANGED <<W, j, acc, maxDen>>
        \/ stage = 4 /\ stage' = 5 /\ j' \in {k * JStep : k \in 0..((G \div JStep) - 1)} /\ UNCHANGED <<W, acc, maxDen, maxWhole>>
Out == Approx(W, j, acc, maxDen, maxWhole)
InvStructure == stage = 5 => Structure(Out, maxDen, maxWhole)
InvErrWithin == stage = 5 => ModelErrWithin(W, j, acc, Out)
InvIntegers  == stage = 5 => IntegersArePlain(W, j, maxWhole, Out)
InvDeclineZero == (stage = 5 /\ W = 0 /\ j = 0) => Out.kind = "none"
Emit == stage = 5 => PrintT(<<"REPLAY", ToJson([W |-> W, j |-> j, G |-> G, acc |-> acc, maxDen |-> maxDen,
                                              maxWhole |-> maxWhole, pred |-> Out])>>)
=============================================================================
