CONSTANTS
  MaxLen = 6
  PoolLines = 4
  Inputs = {}
INIT MCInit
NEXT MCNext
INVARIANTS TypeOK InvNoDup InvTrimmed InvLookup InvSpans InvRoundTrip InvFunctional NoStuck Emit
CHECK_DEADLOCK FALSE
