CONSTANTS
  Ext <- AllExtensions
  Conv = "bundled"
  Variants = FALSE
  Syntax <- SyntaxAsExt
  Defects = TRUE
  Mode = "bfs"
  Kernel = "defect"
  MaxBlocks = 4
  MaxItems = 2
  MaxComps = 2
INIT Init
NEXT Next
INVARIANTS InvConsistent InvValidity Emit
CHECK_DEADLOCK FALSE
