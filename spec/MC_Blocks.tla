------------------------------ MODULE MC_Blocks ------------------------------
(* Every sequence of up to MaxLines lines from CookBlocks' pool, with or        *)
(* without a front matter, LF or CRLF: checks MetaScanAgrees on the model and    *)
(* prints each document with the metadata map both parses must return.          *)
EXTENDS CookBlocks, Json
CONSTANTS MaxLines
VARIABLES ls, fm, crlf, done
vars == <<ls, fm, crlf, done>>
FMs == { <<>>, <<[k |-> "title", v |-> "Soup"], [k |-> "j", v |-> "y"]>> }
Init == ls = <<>> /\ fm \in FMs /\ crlf \in BOOLEAN /\ done = FALSE
AddLine == ~done /\ Len(ls) < MaxLines /\ \E l \in LinePool : ls' = Append(ls, l) /\ UNCHANGED <<fm, crlf, done>>
Close == ~done /\ done' = TRUE /\ UNCHANGED <<ls, fm, crlf>>
Next == AddLine \/ Close
NL == IF crlf THEN <<"CR", "LF">> ELSE <<"LF">>
RECURSIVE Render(_, _)
Render(x, i) == IF i > Len(x) THEN <<>> ELSE x[i].chunks \o NL \o Render(x, i + 1)
FMText == IF fm = <<>> THEN <<>> ELSE <<"---">> \o NL \o <<fm[1].k, ": ", fm[1].v>> \o NL \o <<fm[2].k, ": ", fm[2].v>> \o NL \o <<"---">> \o NL
InvAgree == done => MetaScanAgrees(ls, fm, crlf)
Emit == done => PrintT(<<"REPLAY", ToJson([text |-> FMText \o Render(ls, 1), ext |-> Ext, map |-> FullMap(ls, fm, crlf)])>>)
AllExtensions == AllExt
=============================================================================
