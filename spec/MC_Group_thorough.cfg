CONSTANTS
  MaxAdds = 4
INIT Init
NEXT Next
INVARIANTS Conservation Emit
CHECK_DEADLOCK FALSE
