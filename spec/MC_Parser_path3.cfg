CONSTANTS
  Alphabet = {".", "/", "BS", "a", " ", "@", "&"}
  MaxLen = 3
  Prefix <- PfxIgr
  Suffix <- SfxBraces
  ExtChoices <- ExtAllNone
  OsmChoices <- OnlyOsm
INIT MCInit
NEXT MCNext
INVARIANTS InvOrdered InvBracketed InvProgress2 InvFunctional2 NoStuck2 InvCovered Emit2
CHECK_DEADLOCK FALSE
