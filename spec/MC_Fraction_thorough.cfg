CONSTANTS
  G = 4096
  JStep = 1
  Wholes = {0, 1, 2, 7}
  MaxDens = {1, 2, 3, 4, 8, 10, 16, 64}
  Accs = {0, 1, 5, 10, 50, 100}
  MaxWholes = {0, 1, 5, 1000000}
INIT Init
NEXT Next
INVARIANTS InvStructure InvErrWithin InvIntegers InvDeclineZero Emit
CHECK_DEADLOCK FALSE
