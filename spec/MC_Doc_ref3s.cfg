CONSTANTS
  Ext <- AllExtensions
  Conv = "bundled"
  Variants = FALSE
  Syntax <- SyntaxAsExt
  Defects = FALSE
  Mode = "bfs"
  Kernel = "ref"
  MaxBlocks = 1
  MaxItems = 3
  MaxComps = 3
INIT Init
NEXT Next
INVARIANTS InvConsistent InvValidRefs InvValidity Emit
CHECK_DEADLOCK FALSE
