------------------------------ MODULE CookAisle ------------------------------
(***************************************************************************)
(* M9: the aisle configuration parser (src/aisle.rs: parse / write /       *)
(* ingredients_info) as a line-at-a-time state machine over a sequence of  *)
(* SYMBOLS (one symbol = one character; multi-byte characters have a width *)
(* > 1 so that byte spans can be predicted).                               *)
(*                                                                         *)
(* The machine is implementation shaped: one ProcLine step per line of the *)
(* input, in the order aisle::parse visits them, with the same sub-steps:  *)
(* strip `//` comment, trim blanks, category / ingredient line split,       *)
(* `|` split, trim of each name (Unicode blanks both times), duplicate sets. *)
(* The C11 property is stated as invariants over the same state.           *)
(***************************************************************************)
EXTENDS Naturals, Sequences, FiniteSets, TLC

CONSTANTS Inputs          \* the set of symbol sequences explored

VARIABLES input,          \* the file being parsed (sequence of symbols)
          ln,             \* index of the next line to process
          st              \* parser state record, see InitSt
vars == <<input, ln, st>>

(* ---- alphabet --------------------------------------------------------- *)
Width(c) == CASE c \in {"NBSP", "E2"} -> 2     \* U+00A0, U+00E9
              [] c = "TSP"            -> 3     \* U+2009 thin space
              [] OTHER                -> 1
AsciiWs == {" ", "TAB", "CR", "LF"}            \* what trim_ascii removes (FF not generated)
UniWs   == AsciiWs \cup {"NBSP", "TSP"}        \* what str::trim removes

RECURSIVE OffR(_, _)
OffR(inp, i) == IF i <= 1 THEN 0 ELSE OffR(inp, i - 1) + Width(inp[i - 1])
\* byte offset of symbol index i (1-based); Off(inp, Len+1) is the byte length
Off(inp, i) == OffR(inp, i)
Bytes(inp)  == Off(inp, Len(inp) + 1)

(* ---- segments: [a, b) in symbol indices -------------------------------- *)
Seg(a, b)        == [a |-> a, b |-> b]
Content(inp, g)  == SubSeq(inp, g.a, g.b - 1)
SpanOf(inp, g)   == [s |-> Off(inp, g.a), e |-> Off(inp, g.b)]

RECURSIVE FirstAt(_, _, _, _)
\* smallest k in i..j-1 with inp[k] = c, or 0
FirstAt(inp, i, j, c) == IF i >= j THEN 0 ELSE IF inp[i] = c THEN i ELSE FirstAt(inp, i + 1, j, c)

RECURSIVE LinesFrom(_, _)
\* str::lines(): split at LF, a CR right before that LF is dropped, a last line
\* without LF is kept as it is, nothing after a final LF
LinesFrom(inp, i) ==
  IF i > Len(inp) THEN <<>>
  ELSE LET nl == FirstAt(inp, i, Len(inp) + 1, "LF")
       IN IF nl = 0 THEN << Seg(i, Len(inp) + 1) >>
          ELSE LET b == IF nl > i /\ inp[nl - 1] = "CR" THEN nl - 1 ELSE nl
               IN << Seg(i, b) >> \o LinesFrom(inp, nl + 1)
Lines(inp) == LinesFrom(inp, 1)

RECURSIVE CommentAt(_, _, _)
\* smallest k in i..j-2 with inp[k] = inp[k+1] = "/", or 0
CommentAt(inp, i, j) == IF i + 1 >= j THEN 0
                        ELSE IF inp[i] = "/" /\ inp[i + 1] = "/" THEN i ELSE CommentAt(inp, i + 1, j)
StripComment(inp, g) == LET k == CommentAt(inp, g.a, g.b) IN IF k = 0 THEN g ELSE Seg(g.a, k)

RECURSIVE SkipFwd(_, _, _, _)
SkipFwd(inp, i, j, ws) == IF i < j /\ inp[i] \in ws THEN SkipFwd(inp, i + 1, j, ws) ELSE i
RECURSIVE SkipBack(_, _, _, _)
SkipBack(inp, i, j, ws) == IF i < j /\ inp[j - 1] \in ws THEN SkipBack(inp, i, j - 1, ws) ELSE j
\* trim_ascii = trim_ascii_start then trim_ascii_end: an all-blank slice becomes empty AT ITS END
TrimAscii(inp, g) == LET a == SkipFwd(inp, g.a, g.b, AsciiWs) IN Seg(a, SkipBack(inp, a, g.b, AsciiWs))
\* str::trim: an all-blank slice becomes empty AT ITS START
TrimUni(inp, g) == LET a == SkipFwd(inp, g.a, g.b, UniWs)
                   IN IF a = g.b THEN Seg(g.a, g.a) ELSE Seg(a, SkipBack(inp, a, g.b, UniWs))

RECURSIVE SplitBar(_, _)
\* str::split('|'): always at least one piece
SplitBar(inp, g) == LET k == FirstAt(inp, g.a, g.b, "|")
                    IN IF k = 0 THEN << g >> ELSE << Seg(g.a, k) >> \o SplitBar(inp, Seg(k + 1, g.b))

(* ---- parser state ------------------------------------------------------- *)
NoSpan == [s |-> 0, e |-> 0]
Running == [st |-> "running", kind |-> "", name |-> <<>>, first |-> NoSpan, second |-> NoSpan]
Err(kind, name, first, second) == [st |-> "err", kind |-> kind, name |-> name, first |-> first, second |-> second]
InitSt == [cats |-> <<>>, has |-> FALSE, cname |-> <<>>, igrs |-> <<>>,
           usedCats |-> {}, usedNames |-> {}, result |-> Running]

FirstSpan(used, nm) == (CHOOSE u \in used : u.name = nm).span
Known(used, nm)     == \E u \in used : u.name = nm

Category(s, inp, nm) ==   \* nm: segment between the brackets (not trimmed: the code does not trim it)
  LET name == Content(inp, nm) IN
  IF \E i \in DOMAIN name : name[i] = "|"
  THEN [s EXCEPT !.result = Err("Parse", name, SpanOf(inp, nm), NoSpan)]
  ELSE IF Known(s.usedCats, name)
  THEN [s EXCEPT !.result = Err("DuplicateCategory", name, FirstSpan(s.usedCats, name), SpanOf(inp, nm))]
  ELSE [s EXCEPT !.usedCats = @ \cup {[name |-> name, span |-> SpanOf(inp, nm)]},
                 !.cats = IF s.has THEN Append(@, [name |-> s.cname, igrs |-> s.igrs]) ELSE @,
                 !.has = TRUE, !.cname = name, !.igrs = <<>>]

RECURSIVE NamesScan(_, _, _, _, _)
\* scans the names of one line left to right exactly like the `for` loop of the code:
\* returns the state with either a DuplicateIngredient error or all names recorded
NamesScan(s, inp, pieces, i, used) ==
  IF i > Len(pieces) THEN [s EXCEPT !.usedNames = used]
  ELSE LET g == TrimUni(inp, pieces[i])  nm == Content(inp, g) IN
       IF Known(used, nm)
       THEN [s EXCEPT !.result = Err("DuplicateIngredient", nm, FirstSpan(used, nm), SpanOf(inp, g))]
       ELSE NamesScan(s, inp, pieces, i + 1, used \cup {[name |-> nm, span |-> SpanOf(inp, g)]})

Ingredient(s, inp, g) ==
  LET pieces == SplitBar(inp, g)
      s2 == NamesScan(s, inp, pieces, 1, s.usedNames)
      names == [i \in DOMAIN pieces |-> Content(inp, TrimUni(inp, pieces[i]))]
  IN IF s2.result.st = "err" THEN s2
     ELSE IF ~s.has THEN [s2 EXCEPT !.result = Err("Parse", Content(inp, g), SpanOf(inp, g), NoSpan)]
     ELSE [s2 EXCEPT !.igrs = Append(@, names)]

StepLine(s, inp, k) ==
  LET g == TrimUni(inp, StripComment(inp, Lines(inp)[k])) IN   \* `line.trim()`: same blanks as the names
  IF g.a < g.b /\ inp[g.a] = "[" /\ inp[g.b - 1] = "]" /\ g.b - g.a >= 2
  THEN Category(s, inp, Seg(g.a + 1, g.b - 1))
  ELSE IF g.a < g.b THEN Ingredient(s, inp, g) ELSE s

FinishSt(s) == [s EXCEPT !.cats = IF s.has THEN Append(@, [name |-> s.cname, igrs |-> s.igrs]) ELSE @,
                         !.has = FALSE, !.cname = <<>>, !.igrs = <<>>,
                         !.result = [Running EXCEPT !.st = "ok"]]

RECURSIVE ParseFrom(_, _, _)
ParseFrom(s, inp, k) == IF s.result.st = "err" THEN s
                        ELSE IF k > Len(Lines(inp)) THEN FinishSt(s)
                        ELSE ParseFrom(StepLine(s, inp, k), inp, k + 1)
ParseAll(inp) == ParseFrom(InitSt, inp, 1)            \* the whole parse as a function (used for the round trip)

(* ---- the machine ------------------------------------------------------------ *)
Init == input \in Inputs /\ ln = 1 /\ st = InitSt
ProcLine == /\ st.result.st = "running" /\ ln >= 1 /\ ln <= Len(Lines(input))
            /\ st' = StepLine(st, input, ln) /\ ln' = ln + 1 /\ UNCHANGED input
Finish   == /\ st.result.st = "running" /\ ln >= 1 /\ ln > Len(Lines(input))
            /\ st' = FinishSt(st) /\ UNCHANGED <<input, ln>>
Next == ProcLine \/ Finish
Spec == Init /\ [][Next]_vars
Done == st.result.st # "running"

(* ---- writer and reverse lookup (aisle::write, AisleConf::ingredients_info) ----- *)
RECURSIVE JoinBar(_, _)
JoinBar(names, i) == IF i > Len(names) THEN <<>>
                     ELSE (IF i > 1 THEN <<"|">> ELSE <<>>) \o names[i] \o JoinBar(names, i + 1)
RECURSIVE WriteIgrs(_, _)
WriteIgrs(igrs, i) == IF i > Len(igrs) THEN <<>>
                      ELSE (IF Len(igrs[i]) = 0 THEN <<>> ELSE JoinBar(igrs[i], 1) \o <<"LF">>) \o WriteIgrs(igrs, i + 1)
RECURSIVE WriteCats(_, _)
WriteCats(cs, i) == IF i > Len(cs) THEN <<>>
                    ELSE <<"[">> \o cs[i].name \o <<"]", "LF">> \o WriteIgrs(cs[i].igrs, 1) \o <<"LF">> \o WriteCats(cs, i + 1)
Write(cs) == WriteCats(cs, 1)

\* all (category index, line index, name index) triples of a configuration
Triples(cs) == UNION { UNION { { <<i, j, k>> : k \in DOMAIN cs[i].igrs[j] } : j \in DOMAIN cs[i].igrs } : i \in DOMAIN cs }
NameAt(cs, t) == cs[t[1]].igrs[t[2]][t[3]]
\* ingredients_info: later insertions overwrite earlier ones; the map value is (common name, category)
Info(cs, nm) == LET ts == {t \in Triples(cs) : NameAt(cs, t) = nm}
                    last == CHOOSE t \in ts : \A u \in ts : u[1] < t[1] \/ (u[1] = t[1] /\ u[2] < t[2])
                                                             \/ (u[1] = t[1] /\ u[2] = t[2] /\ u[3] <= t[3])
                IN [common |-> cs[last[1]].igrs[last[2]][1], category |-> cs[last[1]].name]

(* ---- C11 as predicates over a configuration / an outcome -------------------------- *)
NoDuplicateCategory(cs) == \A i, j \in DOMAIN cs : i # j => cs[i].name # cs[j].name
NoDuplicateName(cs)     == \A t, u \in Triples(cs) : t # u => NameAt(cs, t) # NameAt(cs, u)
NamesTrimmed(cs)        == \A t \in Triples(cs) : LET n == NameAt(cs, t) IN
                              Len(n) > 0 => (n[1] \notin UniWs /\ n[Len(n)] \notin UniWs)
LookupOk(cs)            == \A t \in Triples(cs) :
                              Info(cs, NameAt(cs, t)) = [common |-> cs[t[1]].igrs[t[2]][1], category |-> cs[t[1]].name]
SpanInside(sp, len)     == sp.s <= sp.e /\ sp.e <= len
RoundTrips(cs)          == LET r == ParseAll(Write(cs)) IN r.result.st = "ok" /\ r.cats = cs

(* ---- invariants of the machine (C11 at model level) -------------------------------- *)
TypeOK == /\ ln \in 0..(Len(Lines(input)) + 1)          \* 0: the input is still being written (MC_Aisle)
          /\ st.result.st \in {"running", "ok", "err"}
InvNoDup      == st.result.st = "ok" => NoDuplicateCategory(st.cats) /\ NoDuplicateName(st.cats)
InvTrimmed    == st.result.st = "ok" => NamesTrimmed(st.cats)
InvLookup     == st.result.st = "ok" => LookupOk(st.cats)
InvSpans      == st.result.st = "err" => SpanInside(st.result.first, Bytes(input)) /\ SpanInside(st.result.second, Bytes(input))
InvRoundTrip  == st.result.st = "ok" => RoundTrips(st.cats)
InvFunctional == Done => ParseAll(input) = st        \* the step machine and the fold agree
\* total: every behaviour reaches Done (no deadlock before it); checked by TLC as absence of
\* deadlock with the constraint that Done states have no successor
Total == ENABLED Next \/ Done
=============================================================================
