CONSTANTS
  Ext <- AllExtensions
  Conv = "bundled"
  Variants = FALSE
  Syntax <- SyntaxAsExt
  Defects = FALSE
  Mode = "bfs"
  Kernel = "struct"
  MaxBlocks = 5
  MaxItems = 2
  MaxComps = 3
INIT Init
NEXT Next
INVARIANTS InvConsistent InvValidRefs InvValidity Emit
CHECK_DEADLOCK FALSE
