----------------------------- MODULE Trace_Shared -----------------------------
(* Trace specification for C18: a recorded history of calls on ONE parser -      *)
(* sequential or from several threads - as events ordered per thread:            *)
(*   [ev |-> "Begin"|"End", t |-> thread, seq |-> per-thread number,             *)
(*    op |-> operation, input |-> id, hash |-> result hash (End), base |-> hash  *)
(*    of the sequential baseline of (op, input) on a fresh parser]               *)
(* The history is explainable by CookShared iff per thread Begin and End         *)
(* alternate on the same (op, input) and every End carries the baseline.         *)
EXTENDS Naturals, Sequences, FiniteSets, TLC, Json, IOUtils
VARIABLES l, open     \* open: per thread the call in flight ("" = none)
Recs == ndJsonDeserialize(IOEnv.TRACE)
Key(r) == <<r.op, r.input>>
TInit == l = 1 /\ open = [t \in {} |-> <<>>]
Get(t) == IF t \in DOMAIN open THEN open[t] ELSE <<>>
Put(t, v) == [u \in (DOMAIN open) \cup {t} |-> IF u = t THEN v ELSE open[u]]
Failed(r) ==
  IF r.ev = "Reset" THEN {}
  ELSE IF r.ev = "Begin" THEN (IF Get(r.t) # <<>> THEN {"BeginWhileRunning"} ELSE {})
  ELSE (IF Get(r.t) # Key(r) THEN {"EndWithoutBegin"} ELSE {}) \cup (IF r.hash # r.base THEN {"SameResultAsSequentialBaseline"} ELSE {})
TNext == /\ l <= Len(Recs)
         /\ LET r == Recs[l] f == Failed(r) IN
              /\ IF f = {} THEN TRUE ELSE PrintT(<<"BAD", l, f>>)
              /\ open' = IF r.ev = "Reset" THEN [t \in {} |-> <<>>] ELSE IF r.ev = "Begin" THEN Put(r.t, Key(r)) ELSE Put(r.t, <<>>)
         /\ IF l = Len(Recs) THEN PrintT(<<"CONSUMED", l>>) ELSE TRUE
         /\ l' = l + 1
=============================================================================
