----------------------------- MODULE CookAnalysis -----------------------------
(***************************************************************************)
(* M4: the analysis pass (src/analysis/event_consumer.rs,                  *)
(* RecipeCollector::parse_events) as a fold over abstract parser events.   *)
(* Every operator A<Event>(a, ...) is one arm of the `match` in            *)
(* parse_events and returns the next analysis state; the arms follow the   *)
(* code branch by branch (modes, reference resolution, inherited and       *)
(* conflicting modifiers, intermediate references, block buffering, step   *)
(* numbering, inline quantities, diagnostics).                             *)
(* ModelOf(a) projects the state to the recipe model; the C06 predicates   *)
(* are written over that projection so that the very same operators judge  *)
(* the model TLC predicts and the model the real library returns.          *)
(***************************************************************************)
EXTENDS Naturals, Sequences, FiniteSets, TLC

CONSTANTS Ext,        \* enabled extensions, subset of AllExt
          Conv        \* "bundled" | "empty"
AllExt == {"MODIFIERS", "ALIAS", "ADVANCED_UNITS", "MODES", "INLINE", "RANGE", "TIMER_REQ", "INTERMEDIATE"}

(* ---- vocabulary ------------------------------------------------------------ *)
Fold(n) == CASE n = "A" -> "a" [] n = "B" -> "b" [] n = "Salt" -> "salt" [] n = "Pan" -> "pan"
             [] n = "crU2me" -> "crE2me"      \* U2 is the capital of E2: names are compared under full Unicode case folding
             [] OTHER -> n
UnitKindBundled(u) == CASE u \in {"g", "kg", "mg", "lb", "oz", "gram", "grams"} -> "mass"
                        [] u \in {"ml", "l", "tsp", "tbsp", "cup", "cups", "litre", "L", "fl oz"} -> "volume"
                        [] u \in {"min", "h", "s", "minutes", "hour", "hours", "secs", "d"} -> "time"
                        [] u \in {"C", "F", "DEGC"} -> "temperature"
                        [] u \in {"cm", "m", "in"} -> "length"
                        [] OTHER -> "unknown"
UnitKind(u) == IF Conv = "bundled" THEN UnitKindBundled(u) ELSE "unknown"

NoQ     == [t |-> "none"]
NoInter == [mode |-> "none", kind |-> "none", val |-> 0]
IsTextVal(v) == v.t = "text"

(* ---- analysis state ----------------------------------------------------------- *)
A0 == [igr |-> <<>>, cw |-> <<>>, tm |-> <<>>, inl |-> <<>>, secs |-> <<>>,
       cur |-> [name |-> "", content |-> <<>>],
       blk |-> [open |-> FALSE, text |-> FALSE, items |-> <<>>, str |-> ""],
       defMode |-> "all", dupMode |-> "new", stepCtr |-> 1, oldStyle |-> TRUE, oldUsed |-> 0,
       meta |-> <<>>, servings |-> <<>>, diags |-> <<>>, failed |-> FALSE]

Diag(sev, stage, class) == [sev |-> sev, stage |-> stage, class |-> class]
E(class) == Diag("error", "analysis", class)
W(class) == Diag("warning", "analysis", class)
AddDiags(a, ds) == [a EXCEPT !.diags = @ \o ds]

(* ---- metadata -------------------------------------------------------------------- *)
IsConfigKey(k) == k \in {"[mode]", "[define]", "[duplicate]", "[foo]"}
RECURSIVE PutR(_, _, _, _)
PutR(m, k, v, i) == IF i > Len(m) THEN Append(m, [k |-> k, v |-> v])
                    ELSE IF m[i].k = k THEN [m EXCEPT ![i].v = v] ELSE PutR(m, k, v, i + 1)
Put(m, k, v) == PutR(m, k, v, 1)        \* IndexMap::insert: replaces in place, else appends
\* servings as the analysis stores them (the value forms are CookMeta's business; here a small pool)
ServingsOf(v) == CASE v = "2" -> <<2>> [] v = "4" -> <<4>> [] v = "2|4" -> <<2, 4>> [] v = "3 cups" -> <<3>> [] v = "6|2" -> <<6, 2>>
                   [] v = "4 | 2 | 8" -> <<4, 2, 8>> [] OTHER -> <<>>
BadServings(v) == ServingsOf(v) = <<>>
\* StdKey::Servings has three spellings; whichever entry comes last sets the servings
IsServingsKey(k) == k \in {"servings", "serves", "yield"}
AMeta(a, k, v) ==
  IF "MODES" \in Ext /\ IsConfigKey(k)
  THEN CASE k \in {"[mode]", "[define]"} ->
              (CASE v \in {"all", "default"} -> [a EXCEPT !.defMode = "all"]
                 [] v \in {"components", "ingredients"} -> [a EXCEPT !.defMode = "components"]
                 [] v = "steps" -> [a EXCEPT !.defMode = "steps"]
                 [] v = "text" -> [a EXCEPT !.defMode = "text"]
                 [] OTHER -> AddDiags(a, <<E("BadModeValue")>>))
         [] k = "[duplicate]" ->
              (CASE v \in {"new", "default"} -> [a EXCEPT !.dupMode = "new"]
                 [] v \in {"reference", "ref"} -> [a EXCEPT !.dupMode = "ref"]
                 [] OTHER -> AddDiags(a, <<E("BadModeValue")>>))
         [] OTHER -> LET a2 == AddDiags(a, <<W("UnknownConfigKey")>>)
                     IN IF a.oldStyle THEN [a2 EXCEPT !.meta = Put(@, k, v)] ELSE a2
  ELSE LET a2 == [a EXCEPT !.oldUsed = @ + 1, !.meta = Put(@, k, v)] IN
       IF IsServingsKey(k)
       THEN IF BadServings(v) THEN AddDiags(a2, <<W("UnsupportedStdValue")>>) ELSE [a2 EXCEPT !.servings = ServingsOf(v)]
       ELSE a2
\* front matter: the whole mapping replaces the metadata; entries = seq of [k, v]; servings looked up the same way
RECURSIVE FMServings(_, _, _)
\* the entries are checked in order: every servings-like key either sets the servings or warns
FMServings(a, entries, i) ==
  IF i > Len(entries) THEN a
  ELSE IF ~IsServingsKey(entries[i].k) THEN FMServings(a, entries, i + 1)
  ELSE IF BadServings(entries[i].v) THEN FMServings(AddDiags(a, <<W("UnsupportedStdValue")>>), entries, i + 1)
  ELSE FMServings([a EXCEPT !.servings = ServingsOf(entries[i].v)], entries, i + 1)
AFrontMatter(a, entries, ok) ==
  IF ~ok THEN AddDiags([a EXCEPT !.oldStyle = FALSE], <<E("BadFrontMatter")>>)
  ELSE FMServings([a EXCEPT !.oldStyle = FALSE, !.meta = entries], entries, 1)

(* ---- sections and blocks ------------------------------------------------------------- *)
SecEmpty(s) == s.name = "" /\ s.content = <<>>
ASection(a, name) == [a EXCEPT !.stepCtr = 1, !.secs = IF SecEmpty(a.cur) THEN @ ELSE Append(@, a.cur),
                               !.cur = [name |-> name, content |-> <<>>]]
AStart(a, kind) == [a EXCEPT !.blk = [open |-> TRUE, text |-> (a.defMode = "text" \/ kind = "text"), items |-> <<>>, str |-> ""]]
AEnd(a) ==
  LET c == IF a.blk.text THEN [t |-> "text", v |-> a.blk.str, items |-> <<>>, number |-> 0, nraw |-> 0, nempty |-> 0]
           ELSE [t |-> "step", v |-> "", items |-> a.blk.items, number |-> a.stepCtr, nraw |-> Len(a.blk.items), nempty |-> 0]
      keep == a.defMode # "components" \/ c.t = "text"
  IN [a EXCEPT !.blk = [open |-> FALSE, text |-> FALSE, items |-> <<>>, str |-> ""],
               !.cur.content = IF keep THEN Append(@, c) ELSE @,
               !.stepCtr = IF keep /\ c.t = "step" THEN @ + 1 ELSE @]

(* ---- text: pieces are [t |-> "s", v |-> string] or [t |-> "q", n |-> number string, u |-> unit, raw |-> source] ---- *)
InlineFound(p) == p.t = "q" /\ "INLINE" \in Ext /\ UnitKind(p.u) # "unknown"
RECURSIVE TextItems(_, _, _, _, _)
\* walks the pieces: returns [items, inl] with plain runs merged into one text item
TextItems(ps, i, acc, items, inl) ==
  IF i > Len(ps) THEN [items |-> IF acc = "" THEN items ELSE Append(items, [t |-> "text", v |-> acc, i |-> 0]), inl |-> inl]
  ELSE IF InlineFound(ps[i])
       THEN TextItems(ps, i + 1, "", Append(IF acc = "" THEN items ELSE Append(items, [t |-> "text", v |-> acc, i |-> 0]),
                                          [t |-> "inl", v |-> "", i |-> Len(inl) + 1]),
                      Append(inl, [n |-> ps[i].n, u |-> ps[i].u]))
       ELSE TextItems(ps, i + 1, acc \o (IF ps[i].t = "q" THEN ps[i].raw ELSE ps[i].v), items, inl)
RECURSIVE RawOf(_, _)
RawOf(ps, i) == IF i > Len(ps) THEN "" ELSE (IF ps[i].t = "q" THEN ps[i].raw ELSE ps[i].v) \o RawOf(ps, i + 1)
AText(a, ps, alnum) ==
  IF a.blk.text THEN [a EXCEPT !.blk.str = @ \o RawOf(ps, 1)]
  ELSE IF a.defMode = "components" THEN (IF alnum THEN AddDiags(a, <<W("IgnoredText")>>) ELSE a)
  ELSE LET r == TextItems(ps, 1, "", a.blk.items, a.inl) IN [a EXCEPT !.blk.items = r.items, !.inl = r.inl]

(* ---- quantities ------------------------------------------------------------------------------- *)
\* parser quantity: [v |-> Val, unit |-> "" or unit, lock |-> BOOLEAN];  model quantity adds fixed
QtyOf(q, isIgr) == IF q = NoQ THEN NoQ
                   ELSE [t |-> "q", v |-> q.v, unit |-> q.unit, fixed |-> ~(isIgr /\ ~IsTextVal(q.v) /\ ~q.lock)]
\* the scaling lock is only pointless on something that is not scaled anyway
LockDiags(q, isIgr) == IF q # NoQ /\ q.lock /\ (~isIgr \/ IsTextVal(q.v)) THEN <<W("UnnecessaryLock")>> ELSE <<>>
\* Quantity::compatible_unit
Incompatible(q1, q2) ==
  \/ (q1.unit = "") # (q2.unit = "")
  \/ /\ q1.unit # "" /\ q2.unit # ""
     /\ IF UnitKind(q1.unit) # "unknown" /\ UnitKind(q2.unit) # "unknown"
        THEN UnitKind(q1.unit) # UnitKind(q2.unit) ELSE q1.unit # q2.unit

(* ---- references -------------------------------------------------------------------------------- *)
Def(from, inStep) == [t |-> "def", from |-> from, inStep |-> inStep, to |-> 0, target |-> ""]
Ref(to, target)   == [t |-> "ref", from |-> <<>>, inStep |-> FALSE, to |-> to, target |-> target]
RECURSIVE LastDef(_, _, _)
\* rposition over earlier components that are not references and have the same name ignoring case
LastDef(tbl, n, k) == IF k = 0 THEN 0
                      ELSE IF "ref" \notin tbl[k].mods /\ Fold(tbl[k].name) = Fold(n) THEN k ELSE LastDef(tbl, n, k - 1)
\* resolve_reference: [found, to, implicit, mods, diags]
Resolve(a, tbl, c, inherit) ==
  LET d == LastDef(tbl, c.name, Len(tbl))
      none(ds) == [found |-> FALSE, to |-> 0, implicit |-> FALSE, mods |-> c.mods, diags |-> ds]
      redundantRef == IF (a.dupMode = "ref" \/ a.defMode = "steps") /\ "ref" \in c.mods THEN <<W("RedundantRef")>> ELSE <<>>
      treat == "ref" \in c.mods \/ a.defMode = "steps" \/ (a.dupMode = "ref" /\ d > 0)
  IN IF {"new", "ref"} \subseteq c.mods THEN none(<<E("ConflictMods")>>)  \* "+" with "&": same message as a modifier conflict
     ELSE IF "new" \in c.mods
     THEN none(IF a.defMode # "steps" /\ ((a.dupMode = "ref" /\ d = 0) \/ a.dupMode = "new") THEN <<W("RedundantNew")>> ELSE <<>>)
     ELSE IF ~treat THEN none(redundantRef)
     ELSE IF d = 0 THEN none(redundantRef \o <<E("RefNotFound")>>)
     ELSE LET inh == tbl[d].mods \cap inherit
              conflict == (c.mods \ inh) \ {"ref"}
          IN [found |-> TRUE, to |-> d, implicit |-> "ref" \notin c.mods, mods |-> c.mods \cup inh \cup {"ref"},
              diags |-> redundantRef \o (IF conflict # {} THEN <<E("ConflictMods")>> ELSE <<>>)]

StepIdx(content) == SelectSeq([i \in DOMAIN content |-> IF content[i].t = "step" THEN i ELSE 0], LAMBDA x : x > 0)
\* resolve_intermediate_ref: [ok, rel, diags]
ResolveInter(a, it) ==
  LET steps == StepIdx(a.cur.content)
      bad(c) == [ok |-> FALSE, rel |-> Def(<<>>, TRUE), diags |-> <<E(c)>>]
      good(r) == [ok |-> TRUE, rel |-> r, diags |-> <<>>]
  IN IF it.val = 0 THEN bad("InterZero")
     ELSE CASE it.kind = "step" /\ it.mode = "number" ->
                 IF it.val <= Len(steps) THEN good(Ref(steps[it.val], "step")) ELSE bad("InterOutOfBounds")
            [] it.kind = "step" /\ it.mode = "relative" ->
                 IF it.val <= Len(steps) THEN good(Ref(steps[Len(steps) - it.val + 1], "step")) ELSE bad("InterOutOfBounds")
            [] it.kind = "section" /\ it.mode = "number" ->
                 IF it.val <= Len(a.secs) THEN good(Ref(it.val, "section")) ELSE bad("InterOutOfBounds")
            [] it.kind = "section" /\ it.mode = "relative" ->
                 IF it.val <= Len(a.secs) THEN good(Ref(Len(a.secs) - it.val + 1, "section")) ELSE bad("InterOutOfBounds")

RECURSIVE UnitWarnings(_, _, _, _)
UnitWarnings(tbl, idxs, i, q) == IF i > Len(idxs) THEN <<>>
   ELSE (IF tbl[idxs[i]].q # NoQ /\ Incompatible(tbl[idxs[i]].q, q) THEN <<W("IncompatibleUnits")>> ELSE <<>>)
        \o UnitWarnings(tbl, idxs, i + 1, q)

\* checks shared by ingredient and cookware references once the definition d is known
RefChecks(defq, newq, definStep, hasNote) ==
     (IF hasNote THEN <<E("NoteOnRef")>> ELSE <<>>)
  \o (IF defq # NoQ /\ newq # NoQ /\ ~definStep THEN <<E("ConflictQty")>> ELSE <<>>)
  \o (IF defq # NoQ /\ newq # NoQ /\ (IsTextVal(defq.v) # IsTextVal(newq.v)) THEN <<W("TextValueRef")>> ELSE <<>>)

\* component: [name, alias, mods, inter, q, note]
PushItem(a, kind, idx) == IF a.blk.open /\ ~a.blk.text THEN [a EXCEPT !.blk.items = Append(@, [t |-> kind, v |-> "", i |-> idx])] ELSE a
AIngredient(a, c) ==
  LET self == Len(a.igr) + 1
      q == QtyOf(c.q, TRUE)
      base == [name |-> c.name, alias |-> c.alias, q |-> q, note |-> c.note, mods |-> c.mods,
               rel |-> Def(<<>>, a.defMode # "components")]
      lockd == LockDiags(c.q, TRUE)
  IN IF c.inter # NoInter
     THEN LET r == ResolveInter(a, c.inter)
              cm == IF c.mods \cap {"recipe", "hidden", "new"} # {} THEN <<E("InterConflictMods")>> ELSE <<>>
              new == IF r.ok THEN [base EXCEPT !.rel = r.rel] ELSE base
          IN PushItem([AddDiags(a, lockd \o cm \o r.diags) EXCEPT !.igr = Append(@, new)], "igr", self)
     ELSE LET r == Resolve(a, a.igr, c, {"hidden", "opt", "recipe"}) IN
          IF ~r.found
          THEN PushItem([AddDiags(a, lockd \o r.diags) EXCEPT !.igr = Append(@, base)], "igr", self)
          ELSE LET d == r.to
                   new == [base EXCEPT !.mods = r.mods, !.rel = Ref(d, "igr")]
                   uw == IF "ADVANCED_UNITS" \in Ext /\ q # NoQ
                         THEN UnitWarnings(a.igr, <<d>> \o a.igr[d].rel.from, 1, q) ELSE <<>>
                   rc == RefChecks(a.igr[d].q, q, a.igr[d].rel.inStep, c.note # "")
               IN PushItem([AddDiags(a, lockd \o r.diags \o uw \o rc)
                              EXCEPT !.igr = Append([@ EXCEPT ![d].rel.from = Append(@, self)], new)], "igr", self)

CwQ(cq) == IF cq = NoQ THEN NoQ ELSE [t |-> "q", v |-> cq.v, unit |-> "", fixed |-> TRUE]
ACookware(a, c) ==
  LET self == Len(a.cw) + 1
      q == CwQ(c.q)
      base == [name |-> c.name, alias |-> c.alias, q |-> q, note |-> c.note, mods |-> c.mods,
               rel |-> Def(<<>>, a.defMode # "components")]
      lockd == LockDiags(c.q, FALSE)
      r == Resolve(a, a.cw, c, {"hidden", "opt"})
  IN IF ~r.found
     THEN PushItem([AddDiags(a, lockd \o r.diags) EXCEPT !.cw = Append(@, base)], "cw", self)
     ELSE LET d == r.to
              new == [base EXCEPT !.mods = r.mods, !.rel = Ref(d, "cw")]
              rc == RefChecks(a.cw[d].q, q, a.cw[d].rel.inStep, c.note # "")
          IN PushItem([AddDiags(a, lockd \o r.diags \o rc)
                         EXCEPT !.cw = Append([@ EXCEPT ![d].rel.from = Append(@, self)], new)], "cw", self)

ATimer(a, c) ==   \* c: [name, q]
  LET self == Len(a.tm) + 1
      q == QtyOf(c.q, FALSE)
      lockd == LockDiags(c.q, FALSE)
      ud == IF "ADVANCED_UNITS" \in Ext /\ q # NoQ
            THEN (IF IsTextVal(q.v) THEN <<E("TimerTextValue")>> ELSE <<>>)
                 \o (IF q.unit = "" THEN <<>> ELSE IF UnitKind(q.unit) = "unknown" THEN <<E("UnknownTimerUnit")>>
                     ELSE IF UnitKind(q.unit) # "time" THEN <<E("TimerNotTime")>> ELSE <<>>)
            ELSE <<>>
  IN PushItem([AddDiags(a, lockd \o ud) EXCEPT !.tm = Append(@, [name |-> c.name, q |-> q])], "tm", self)

\* a component inside a text-mode block is kept as its source text
AComponentInText(a, kind, raw) == [AddDiags(a, <<W("IgnoredComponentInTextMode")>>) EXCEPT !.blk.str = @ \o raw]
AComponent(a, kind, c, raw) ==
  IF a.blk.text THEN AComponentInText(a, kind, raw)
  ELSE CASE kind = "igr" -> AIngredient(a, c) [] kind = "cw" -> ACookware(a, c) [] kind = "tm" -> ATimer(a, c)

AParseError(a) == [a EXCEPT !.failed = TRUE]
AParseWarning(a, class) == AddDiags(a, <<Diag("warning", "parse", class)>>)
AFinish(a) == LET a2 == [a EXCEPT !.secs = IF SecEmpty(a.cur) THEN @ ELSE Append(@, a.cur), !.cur = [name |-> "", content |-> <<>>]]
              IN IF a.oldUsed > 0 THEN AddDiags(a2, <<W("DeprecatedMetadata")>>) ELSE a2

(* ---- projection and validity -------------------------------------------------------------------- *)
HasError(a) == a.failed \/ \E i \in DOMAIN a.diags : a.diags[i].sev = "error"
ModelOf(a) == [igr |-> a.igr, cw |-> a.cw, tm |-> a.tm, inl |-> a.inl, secs |-> a.secs, meta |-> a.meta, servings |-> a.servings]
Valid(a) == ~HasError(a)

(* ---- C06: referential consistency of a model m (predicted or observed) ----------------------------- *)
Range(f) == {f[i] : i \in DOMAIN f}
AllItems(m) == UNION { UNION { Range(m.secs[s].content[c].items) : c \in DOMAIN m.secs[s].content } : s \in DOMAIN m.secs }
TableOf(m, k) == CASE k = "igr" -> m.igr [] k = "cw" -> m.cw [] k = "tm" -> m.tm [] k = "inl" -> m.inl
ItemsIndexExisting(m) == \A it \in AllItems(m) : it.t # "text" => it.i \in DOMAIN TableOf(m, it.t)
\* flattened (section, content, item) order of the component items of one kind is 1,2,3,... increasing
RECURSIVE FlatItems(_, _, _, _)
FlatItems(m, s, c, kind) ==
  IF s > Len(m.secs) THEN <<>>
  ELSE IF c > Len(m.secs[s].content) THEN FlatItems(m, s + 1, 1, kind)
  ELSE SelectSeq(m.secs[s].content[c].items, LAMBDA it : it.t = kind) \o FlatItems(m, s, c + 1, kind)
Increasing(items) == \A i \in 1..(Len(items) - 1) : items[i].i < items[i + 1].i
ComponentsInDocOrder(m) == \A k \in {"igr", "cw", "tm", "inl"} : Increasing(FlatItems(m, 1, 1, k))
RefsOk(tbl, kind) == \A i \in DOMAIN tbl : (tbl[i].rel.t = "ref" /\ tbl[i].rel.target = kind) =>
                        LET d == tbl[i].rel.to IN
                          /\ d >= 1 /\ d < i /\ tbl[d].rel.t = "def"
                          /\ Cardinality({k \in DOMAIN tbl[d].rel.from : tbl[d].rel.from[k] = i}) = 1
BackLinksOk(tbl, kind) == \A d \in DOMAIN tbl : tbl[d].rel.t = "def" => \A k \in DOMAIN tbl[d].rel.from :
                        LET j == tbl[d].rel.from[k] IN
                          j > d /\ j \in DOMAIN tbl /\ tbl[j].rel.t = "ref" /\ tbl[j].rel.to = d /\ tbl[j].rel.target = kind
RefsPointBackToDefs(m)  == RefsOk(m.igr, "igr") /\ RefsOk(m.cw, "cw")
BackLinksExactlyOnce(m) == BackLinksOk(m.igr, "igr") /\ BackLinksOk(m.cw, "cw")
\* where (section, content index) each ingredient is used
UsesOf(m, i) == {<<s, c>> \in (DOMAIN m.secs) \X (1..64) : c \in DOMAIN m.secs[s].content
                    /\ \E it \in Range(m.secs[s].content[c].items) : it.t = "igr" /\ it.i = i}
StepRefsEarlierSameSection(m) ==
  \A i \in DOMAIN m.igr : (m.igr[i].rel.t = "ref" /\ m.igr[i].rel.target = "step") =>
     \A u \in UsesOf(m, i) : LET to == m.igr[i].rel.to IN
         to >= 1 /\ to < u[2] /\ m.secs[u[1]].content[to].t = "step"
SectionRefsEarlier(m) ==
  \A i \in DOMAIN m.igr : (m.igr[i].rel.t = "ref" /\ m.igr[i].rel.target = "section") =>
     /\ m.igr[i].rel.to >= 1
     /\ \A u \in UsesOf(m, i) : m.igr[i].rel.to < u[1]
     /\ (UsesOf(m, i) = {} => m.igr[i].rel.to <= Len(m.secs))
StepNumbering(m) == \A s \in DOMAIN m.secs :
     LET steps == SelectSeq(m.secs[s].content, LAMBDA x : x.t = "step") IN \A k \in DOMAIN steps : steps[k].number = k
NothingEmpty(m) == /\ \A s \in DOMAIN m.secs : ~(m.secs[s].name = "" /\ m.secs[s].content = <<>>)
                   /\ \A s \in DOMAIN m.secs : \A c \in DOMAIN m.secs[s].content :
                        LET x == m.secs[s].content[c] IN
                          x.t = "step" => (x.nraw > 0 /\ x.nempty = 0)     \* counted before whitespace normalisation
TimersNonEmpty(m) == \A i \in DOMAIN m.tm : m.tm[i].name # "" \/ m.tm[i].q # NoQ
ValidRefIffModifier(m) == /\ \A i \in DOMAIN m.igr : (m.igr[i].rel.t = "ref") <=> ("ref" \in m.igr[i].mods)
                          /\ \A i \in DOMAIN m.cw : (m.cw[i].rel.t = "ref") <=> ("ref" \in m.cw[i].mods)
ValidSameFoldedName(m, fold(_)) ==
                          /\ \A i \in DOMAIN m.igr : (m.igr[i].rel.t = "ref" /\ m.igr[i].rel.target = "igr") =>
                                 fold(m.igr[i].name) = fold(m.igr[m.igr[i].rel.to].name)
                          /\ \A i \in DOMAIN m.cw : m.cw[i].rel.t = "ref" => fold(m.cw[i].name) = fold(m.cw[m.cw[i].rel.to].name)
(* ---- the collector seen through hook H2: scalar snapshots after every event ------------------------------ *)
\* s: [ev, def, dup, ctr, old, blk, igr, cw, tm, inl, secs, cur, steps, diags]; p is the snapshot before (or Snap0)
Snap0 == [ev |-> "", def |-> "all", dup |-> "new", ctr |-> 1, old |-> TRUE, blk |-> FALSE, igr |-> 0, cw |-> 0, tm |-> 0,
          inl |-> 0, secs |-> 0, cur |-> 0, steps |-> 0, diags |-> 0]
SameTables(p, s) == s.igr = p.igr /\ s.cw = p.cw /\ s.tm = p.tm /\ s.inl = p.inl
SameShape(p, s)  == s.secs = p.secs /\ s.cur = p.cur /\ s.steps = p.steps /\ s.ctr = p.ctr
SameModes(p, s)  == s.def = p.def /\ s.dup = p.dup
\* one transition of the scalar abstraction of CookAnalysis, by event
SnapStep(p, s) ==
  /\ s.ctr = s.steps + 1                                   \* the counter is the number of pushed steps of the section + 1
  /\ s.igr >= p.igr /\ s.cw >= p.cw /\ s.tm >= p.tm /\ s.inl >= p.inl /\ s.secs >= p.secs
  /\ CASE s.ev = "Section"    -> /\ s.ctr = 1 /\ s.cur = 0 /\ s.steps = 0 /\ ~s.blk /\ ~p.blk /\ SameTables(p, s) /\ SameModes(p, s)
                                  /\ s.secs \in {p.secs, p.secs + 1} /\ (p.cur > 0 => s.secs = p.secs + 1)
       [] s.ev \in {"StartStep", "StartText"} -> ~p.blk /\ s.blk /\ SameTables(p, s) /\ SameShape(p, s) /\ SameModes(p, s)
       [] s.ev = "EndStep"    -> /\ p.blk /\ ~s.blk /\ SameTables(p, s) /\ SameModes(p, s) /\ s.secs = p.secs
                                  /\ IF s.def = "components" THEN SameShape(p, s)
                                     ELSE IF s.def = "text" THEN s.cur = p.cur + 1 /\ s.steps = p.steps
                                     ELSE s.cur = p.cur + 1 /\ s.steps = p.steps + 1
       [] s.ev = "EndText"    -> p.blk /\ ~s.blk /\ SameTables(p, s) /\ SameModes(p, s) /\ s.secs = p.secs /\ s.cur = p.cur + 1 /\ s.steps = p.steps
       [] s.ev = "Text"       -> p.blk /\ s.blk /\ SameShape(p, s) /\ SameModes(p, s) /\ s.igr = p.igr /\ s.cw = p.cw /\ s.tm = p.tm
       [] s.ev = "Ingredient" -> p.blk /\ s.blk /\ SameShape(p, s) /\ SameModes(p, s) /\ s.cw = p.cw /\ s.tm = p.tm /\ s.inl = p.inl
                                  /\ s.igr = (IF s.def = "text" THEN p.igr ELSE p.igr + 1)
       [] s.ev = "Cookware"   -> p.blk /\ s.blk /\ SameShape(p, s) /\ SameModes(p, s) /\ s.igr = p.igr /\ s.tm = p.tm /\ s.inl = p.inl
                                  /\ s.cw = (IF s.def = "text" THEN p.cw ELSE p.cw + 1)
       [] s.ev = "Timer"      -> p.blk /\ s.blk /\ SameShape(p, s) /\ SameModes(p, s) /\ s.igr = p.igr /\ s.cw = p.cw /\ s.inl = p.inl
                                  /\ s.tm = (IF s.def = "text" THEN p.tm ELSE p.tm + 1)
       [] s.ev = "Metadata"   -> ~p.blk /\ ~s.blk /\ SameTables(p, s) /\ SameShape(p, s)
       [] s.ev = "FrontMatter" -> ~s.blk /\ SameTables(p, s) /\ SameShape(p, s) /\ SameModes(p, s) /\ ~s.old
       [] s.ev \in {"Warning", "Error"} -> SameTables(p, s) /\ SameShape(p, s) /\ SameModes(p, s) /\ s.blk = p.blk
       [] OTHER -> FALSE
RECURSIVE SnapsFrom(_, _, _)
SnapsFrom(ss, i, p) == i > Len(ss) \/ (SnapStep(p, ss[i]) /\ SnapsFrom(ss, i + 1, ss[i]))
CollectorSteps(ss) == SnapsFrom(ss, 1, Snap0)

Consistent(m) == /\ ItemsIndexExisting(m) /\ ComponentsInDocOrder(m) /\ RefsPointBackToDefs(m) /\ BackLinksExactlyOnce(m)
                 /\ StepRefsEarlierSameSection(m) /\ SectionRefsEarlier(m) /\ StepNumbering(m) /\ NothingEmpty(m)
                 /\ TimersNonEmpty(m)
=============================================================================
