CONSTANTS
  G = 4096
INIT TInit
NEXT TNext
CHECK_DEADLOCK FALSE
