CONSTANTS
  Conv = "bundled"
  MaxLen = 4
  Kind = "servings"
INIT Init
NEXT Next
INVARIANTS TypeOk Emit
CHECK_DEADLOCK FALSE
