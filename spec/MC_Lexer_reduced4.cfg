CONSTANTS
  Alphabet <- Reduced
  MaxLen = 4
INIT MCInit
NEXT MCNext
INVARIANTS InvPrefixTiles InvProgress InvFunctional InvNewline NoStuck Emit
CHECK_DEADLOCK FALSE
