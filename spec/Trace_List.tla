------------------------------ MODULE Trace_List ------------------------------
(* Trace specification for C10 (recipes): one record per valid recipe with its      *)
(* ingredients (definition / reference, back links, quantity in quarter units,      *)
(* display name, listed or not) and what group_ingredients, IngredientList (one     *)
(* recipe, the same recipe twice) and categorize (aisle file with colliding         *)
(* synonyms) returned as totals per class.  Expected totals are recomputed with     *)
(* CookGroup's operators (CookList: each quantity once, under its definition).      *)
EXTENDS CookGroup, Json, IOUtils
VARIABLES l
Recs == ndJsonDeserialize(IOEnv.TRACE)
AsSet(x) == {x[i] : i \in DOMAIN x}
Igr(r) == r.obs.igrs
\* the quantities counted under definition d: its own and those of its references, in order
QsOf(r, d) == SelectSeq([k \in 1..(1 + Len(Igr(r)[d].from)) |-> IF k = 1 THEN Igr(r)[d].q ELSE Igr(r)[Igr(r)[d].from[k - 1]].q], LAMBDA q : q.t # "none")
Defs(r) == {d \in DOMAIN Igr(r) : Igr(r)[d].def}
Listed(r) == {d \in Defs(r) : Igr(r)[d].listed}
RECURSIVE Cat(_, _)
Cat(ss, i) == IF i > Len(ss) THEN <<>> ELSE ss[i] \o Cat(ss, i + 1)
\* all quantities of the listed definitions whose display name is n (in index order), repeated `times`
\* k-th smallest element of a finite set of naturals
NthOf(S, k) == CHOOSE x \in S : Cardinality({y \in S : y < x}) = k - 1
\* k-th member of a set of names, in the order the names appear in list1 (any fixed order would do)
PosIn(r, n) == CHOOSE i \in DOMAIN r.obs.list1 : r.obs.list1[i].name = n
NthStr(M, k, names, r) == CHOOSE n \in M : Cardinality({m \in M : PosIn(r, m) < PosIn(r, n)}) = k - 1
QsOfName(r, n) == LET ds == {d \in Listed(r) : Igr(r)[d].display = n} IN Cat([k \in 1..Cardinality(ds) |-> QsOf(r, NthOf(ds, k))], 1)
Matches(t, inputs) == AsSet(t.classes) = ClassTotals(inputs) /\ AsSet(t.texts) = TextBag(inputs) /\ t.exact
Twice(s) == s \o s
Common(r, n) == LET es == {e \in AsSet(r.obs.aisle) : e.name = n} IN IF es = {} THEN n ELSE (CHOOSE e \in es : TRUE).common
Clauses == {"Returns", "CountedUnderItsDefinition", "GroupedAreTheDefinitionsInRecipeOrder", "GroupedConserves", "ListHasExactlyTheListedNames", "ListConserves",
            "TwoRecipesDouble", "CategorizeConserves"}
Holds(c, r) ==
  CASE c = "Returns" -> r.obs.st \in {"ok", "invalid"}
    \* "its" definition is the one the specification (CookAnalysis) resolves the reference to
    [] c = "CountedUnderItsDefinition" -> (r.obs.st = "ok" /\ "prel" \in DOMAIN r) =>
         /\ Len(r.prel) = Len(Igr(r))
         /\ \A i \in DOMAIN Igr(r) : Igr(r)[i].def = (r.prel[i].t = "def") /\ (Igr(r)[i].def => Igr(r)[i].from = r.prel[i].from)
    [] c = "GroupedAreTheDefinitionsInRecipeOrder" -> r.obs.st = "ok" =>
         /\ {r.obs.grouped[i].index : i \in DOMAIN r.obs.grouped} = Defs(r) /\ Len(r.obs.grouped) = Cardinality(Defs(r))
         /\ \A i \in 1..(Len(r.obs.grouped) - 1) : r.obs.grouped[i].index < r.obs.grouped[i + 1].index
    [] c = "GroupedConserves" -> r.obs.st = "ok" => \A i \in DOMAIN r.obs.grouped : Matches(r.obs.grouped[i].totals, QsOf(r, r.obs.grouped[i].index))
    [] c = "ListHasExactlyTheListedNames" -> r.obs.st = "ok" =>
         /\ {r.obs.list1[i].name : i \in DOMAIN r.obs.list1} = {Igr(r)[d].display : d \in Listed(r)}
         /\ \A i, j \in DOMAIN r.obs.list1 : i # j => r.obs.list1[i].name # r.obs.list1[j].name
    [] c = "ListConserves" -> r.obs.st = "ok" => \A i \in DOMAIN r.obs.list1 : Matches(r.obs.list1[i].totals, QsOfName(r, r.obs.list1[i].name))
    [] c = "TwoRecipesDouble" -> r.obs.st = "ok" => \A i \in DOMAIN r.obs.list2 : Matches(r.obs.list2[i].totals, Twice(QsOfName(r, r.obs.list2[i].name)))
    [] c = "CategorizeConserves" -> r.obs.st = "ok" =>
         LET names == {r.obs.list1[i].name : i \in DOMAIN r.obs.list1}
             commons == {Common(r, n) : n \in names}
         IN /\ {r.obs.categorized[i].name : i \in DOMAIN r.obs.categorized} = commons
            /\ \A cn \in commons :
                 LET members == {n \in names : Common(r, n) = cn}
                     inputs == Cat([k \in 1..Cardinality(members) |-> QsOfName(r, NthStr(members, k, names, r))], 1)
                     got == {r.obs.categorized[i] : i \in {j \in DOMAIN r.obs.categorized : r.obs.categorized[j].name = cn}}
                 IN Cardinality(got) = 1 /\ \A g \in got : Matches(g.totals, inputs)
Failed(r) == {c \in Clauses : ~Holds(c, r)}
TInit == l = 1
TNext == /\ l <= Len(Recs)
         /\ LET f == Failed(Recs[l]) IN IF f = {} THEN TRUE ELSE PrintT(<<"BAD", l, f>>)
         /\ IF l = Len(Recs) THEN PrintT(<<"CONSUMED", l>>) ELSE TRUE
         /\ l' = l + 1
=============================================================================
