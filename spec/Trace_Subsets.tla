---------------------------- MODULE Trace_Subsets ----------------------------
(* C02, first half: one record per document with the hash of the serde_json    *)
(* image of its parse under every extension subset considered; a core-syntax    *)
(* document must give one and the same image, without errors, under all of them *)
EXTENDS Naturals, Sequences, TLC, Json, IOUtils
VARIABLES l
Recs == ndJsonDeserialize(IOEnv.TRACE)
Clauses == {"SameImageUnderEverySubset", "NoErrorUnderAnySubset"}
Holds(c, r) ==
  CASE c = "SameImageUnderEverySubset" -> \A i \in DOMAIN r.imgs : r.imgs[i] = r.imgs[1]
    [] c = "NoErrorUnderAnySubset"     -> r.wellformed => \A i \in DOMAIN r.errs : r.errs[i] = 0
Failed(r) == {c \in Clauses : ~Holds(c, r)}
TInit == l = 1
TNext == /\ l <= Len(Recs)
         /\ LET f == Failed(Recs[l]) IN IF f = {} THEN TRUE ELSE PrintT(<<"BAD", l, f>>)
         /\ IF l = Len(Recs) THEN PrintT(<<"CONSUMED", l>>) ELSE TRUE
         /\ l' = l + 1
=============================================================================
