CONSTANTS
  MaxCalls = 5
INIT Init
NEXT MCNext
INVARIANTS InvScaledOnce InvConvertAfterScale Emit
CHECK_DEADLOCK FALSE
