CONSTANTS
  Ext <- AllExtensions
  Conv = "bundled"
  MaxLines = 4
INIT Init
NEXT Next
INVARIANTS InvAgree Emit
CHECK_DEADLOCK FALSE
