------------------------------ MODULE CookShared ------------------------------
(***************************************************************************)
(* M13: one CooklangParser shared by several threads.  The parser holds    *)
(* only the extension set and an immutable converter; each parse builds    *)
(* its collector state afresh; the only process-wide mutable state is the  *)
(* lazily built fraction table (std::sync::LazyLock: exactly one thread    *)
(* initialises, the others wait).  A parse is Begin -> (TouchTable)? ->    *)
(* End.  C18: every End for an input carries the result the sequential     *)
(* baseline gives for that input, whatever the interleaving and history.   *)
(***************************************************************************)
EXTENDS Naturals, Sequences, FiniteSets, TLC
CONSTANTS Threads, Inputs, MaxCalls
VARIABLES pc,        \* per thread: "idle" | "running" | "waiting"
          cur,       \* per thread: the input being parsed
          table,     \* "none" | "building" | "ready"
          builder,   \* the thread building the table (or "nobody")
          hist       \* completed calls: [t, input, result]
vars == <<pc, cur, table, builder, hist>>
NoInput == "-"
\* the function the library computes: the result depends on the input only
F(i) == <<"result of", i>>
NeedsTable(i) == i \in {"needs fractions"}

Init == pc = [t \in Threads |-> "idle"] /\ cur = [t \in Threads |-> NoInput] /\ table = "none" /\ builder = "nobody" /\ hist = <<>>
Begin(t, i) == /\ pc[t] = "idle" /\ Len(hist) + Cardinality({u \in Threads : pc[u] # "idle"}) < MaxCalls
               /\ pc' = [pc EXCEPT ![t] = "running"] /\ cur' = [cur EXCEPT ![t] = i] /\ UNCHANGED <<table, builder, hist>>
\* LazyLock::force: the first thread builds, any other thread that needs the table meanwhile waits
StartBuild(t) == /\ pc[t] = "running" /\ NeedsTable(cur[t]) /\ table = "none"
                 /\ table' = "building" /\ builder' = t /\ UNCHANGED <<pc, cur, hist>>
FinishBuild(t) == /\ table = "building" /\ builder = t /\ table' = "ready" /\ builder' = "nobody" /\ UNCHANGED <<pc, cur, hist>>
Wait(t) == /\ pc[t] = "running" /\ NeedsTable(cur[t]) /\ table = "building" /\ builder # t
           /\ pc' = [pc EXCEPT ![t] = "waiting"] /\ UNCHANGED <<cur, table, builder, hist>>
Wake(t) == /\ pc[t] = "waiting" /\ table = "ready" /\ pc' = [pc EXCEPT ![t] = "running"] /\ UNCHANGED <<cur, table, builder, hist>>
End(t) == /\ pc[t] = "running" /\ (NeedsTable(cur[t]) => table = "ready")
          /\ hist' = Append(hist, [t |-> t, input |-> cur[t], result |-> F(cur[t])])
          /\ pc' = [pc EXCEPT ![t] = "idle"] /\ cur' = [cur EXCEPT ![t] = NoInput] /\ UNCHANGED <<table, builder>>
Next == \E t \in Threads : (\E i \in Inputs : Begin(t, i)) \/ StartBuild(t) \/ FinishBuild(t) \/ Wait(t) \/ Wake(t) \/ End(t)

Deterministic == \A k \in DOMAIN hist : hist[k].result = F(hist[k].input)
OneBuilder    == table = "building" => builder \in Threads
TableOnce     == [][table = "ready" => table' = "ready"]_vars
\* a recorded history (per thread: Begin/End events with the hash of the result) is explainable iff
\* every End carries the baseline of its input and each thread alternates Begin / End on the same input
=============================================================================
