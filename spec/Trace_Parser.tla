------------------------------ MODULE Trace_Parser ------------------------------
(* Trace specification for the parser model (CookParser): one record per input   *)
(* with the events the specification predicts (`evs`, printed by MC_Parser, or   *)
(* computed here from the input when the record carries none) and the events the *)
(* real PullParser produced (`obs.evs`).                                         *)
(*                                                                               *)
(* What is a violation and what is drift (DESIGN 5, 12.6):                       *)
(*  - an input on which the specification raises no diagnostic is a recipe of    *)
(*    the language, and what it says (components, names, quantities, texts,      *)
(*    metadata, sections - not where) must be read exactly so (C01);             *)
(*  - on such an input the real parser must stay silent too, and every           *)
(*    diagnostic the specification raises must be raised with that severity and  *)
(*    class on a label that touches the specified one (C07);                     *)
(*  - located events are inside the input, ordered, and bracketed (C04, C03);    *)
(*  - everything else (exact spans, order and labels of diagnostics, events of   *)
(*    inputs that are in error) is compared as drift only.                       *)
EXTENDS CookParser, Json, IOUtils
CONSTANTS Clauses
VARIABLES l
Recs == ndJsonDeserialize(IOEnv.TRACE)
AsExt(e) == {e[i] : i \in DOMAIN e}
Whole(r) == "whole" \in DOMAIN r
Base(r) == IF Whole(r) \/ r.osm THEN 0 ELSE 8
\* a whole document: the specification also splits the front matter off (CookParser!ParseWhole)
Spec(r) == IF "evs" \in DOMAIN r THEN r.evs
           ELSE IF Whole(r) THEN ParseWhole(r.input, AsExt(r.ext)) ELSE ParseDoc(r.input, AsExt(r.ext), r.osm, Base(r))
Ok(r) == r.obs.st = "ok"
Silent(evs) == Diags(evs) = <<>>
\* (the class of a diagnostic is read off its message by the recorder: wording is no part of any property, so the class is
\* compared only in ExactlyAsSpecified, as drift)
HasCounterpart(d, obs) == \E q \in DOMAIN obs : obs[q].k = d.k /\ Touch(obs[q].s, obs[q].e, d.s, d.e)
Holds(c, r) ==
  LET spec == Spec(r) IN
  CASE c = "Returns"                 -> Ok(r)
    [] c = "EventsLocatedInOrder"    -> Ok(r) => EventsInOrder(r.obs.evs, Base(r) + Bytes(r.input))
    [] c = "EventsBracketed"         -> Ok(r) => Bracketed(r.obs.evs, 1, "out")
    [] c = "RecipeReadAsSpecified"   -> (Ok(r) /\ Silent(spec)) => Payloads(NonDiag(r.obs.evs)) = Payloads(NonDiag(spec))
    [] c = "SilentWhenSpecifiedSilent" -> (Ok(r) /\ Silent(spec)) => Silent(r.obs.evs)
    \* build_ast over the same parser returns, and its nodes are the parser's events (so their spans are judged above)
    [] c = "AstReturns"              -> Ok(r) => r.obs.ast.st = "ok"
    [] c = "AstNodesAreEventNodes"   -> (Ok(r) /\ r.obs.ast.st = "ok") =>
                                          LET evset == {r.obs.evs[q] : q \in DOMAIN r.obs.evs}
                                              bl == r.obs.ast.blocks
                                          IN \A b \in DOMAIN bl : IF bl[b].k \in {"Step", "TextBlock"}
                                                                  THEN \A i \in DOMAIN bl[b].items : bl[b].items[i] \in evset
                                                                  ELSE bl[b] \in evset
    \* every specified diagnostic has a counterpart of its kind on a touching label, and invalid constructs of different
    \* classes (the SPECIFICATION's classes) are not answered by one and the same diagnostic: at least as many diagnostics of a
    \* kind as the specification has classes of that kind (duplicates of one class may be merged by the implementation)
    [] c = "DiagnosedAsSpecified"    -> Ok(r) => /\ \A q \in DOMAIN spec : IsDiag(spec[q]) => HasCounterpart(spec[q], r.obs.evs)
                                                 /\ \A k \in {"Error", "Warning"} :
                                                       Cardinality({q \in DOMAIN r.obs.evs : IsDiag(r.obs.evs[q]) /\ r.obs.evs[q].k = k})
                                                       >= Cardinality({spec[q].cls : q \in {x \in DOMAIN spec : IsDiag(spec[x]) /\ spec[x].k = k}})
Details == {"ExactlyAsSpecified", "AstAsSpecified"}
Agrees(d, r) == CASE d = "ExactlyAsSpecified" -> Ok(r) => r.obs.evs = Spec(r)
                  [] d = "AstAsSpecified" -> (Ok(r) /\ r.obs.ast.st = "ok") => r.obs.ast.blocks = AstOf(Spec(r))
Failed(r) == {c \in Clauses : ~Holds(c, r)}
Drift(r)  == {d \in Details : ~Agrees(d, r)}
\* (the variables of CookLexer are not used by the judge)
TInit == l = 1 /\ input = <<>> /\ pos = 0 /\ toks = <<>>
TNext == /\ l <= Len(Recs)
         /\ LET r == Recs[l] f == Failed(r) d == Drift(r) IN
              /\ IF f = {} THEN TRUE ELSE PrintT(<<"BAD", l, f>>)
              /\ IF d = {} THEN TRUE ELSE PrintT(<<"NOTE", l, d>>)
         /\ IF l = Len(Recs) THEN PrintT(<<"CONSUMED", l>>) ELSE TRUE
         /\ l' = l + 1 /\ UNCHANGED <<input, pos, toks>>
=============================================================================
