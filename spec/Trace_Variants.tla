---------------------------- MODULE Trace_Variants ----------------------------
(* Trace specification for C17: one record per document with the parse of the  *)
(* base text and of each variant text (CRLF, trailing comments / blanks, block  *)
(* comments between items, extra blank or comment-only lines between blocks).   *)
(* The projected models are whitespace-normalised inside step text, so          *)
(* "unchanged up to whitespace inside step text" is equality of projections.    *)
EXTENDS Naturals, Sequences, FiniteSets, TLC, Json, IOUtils
VARIABLES l
Recs == ndJsonDeserialize(IOEnv.TRACE)
Range(f) == {f[i] : i \in DOMAIN f}
Outcome(o) == IF o.st # "ok" THEN [st |-> o.st, valid |-> FALSE, out |-> FALSE]
              ELSE [st |-> "ok", valid |-> o.valid, out |-> o.has_output]
SameRecipe(b, v) == /\ Outcome(b) = Outcome(v)
                    /\ (b.st = "ok" /\ b.has_output) => v.model = b.model
\* the property is stated for well-formed recipes; CRLF replacement for every input (of the right shape)
Applies(r, v) == r.wellformed \/ v.kind = "crlf"
BadKinds(r) == {v.kind : v \in {x \in Range(r.vars) : Applies(r, x) /\ ~SameRecipe(r.base, x.obs)}}
TInit == l = 1
TNext == /\ l <= Len(Recs)
         /\ LET f == BadKinds(Recs[l]) IN IF f = {} THEN TRUE ELSE PrintT(<<"BAD", l, f>>)
         /\ IF l = Len(Recs) THEN PrintT(<<"CONSUMED", l>>) ELSE TRUE
         /\ l' = l + 1
=============================================================================
