------------------------------ MODULE MC_Lexer ------------------------------
(* Generator + model checking instance of CookLexer.  A behaviour writes a   *)
(* string symbol by symbol (every string over Alphabet up to MaxLen), then   *)
(* lexes it token by token.  The finished behaviours are the exhaustive      *)
(* short-string corpus fed to the real parser (C03, C04, C05, C06, C14,      *)
(* C17, C18), each with the token stream the specification predicts.         *)
EXTENDS CookLexer, Json
CONSTANTS Alphabet, MaxLen

MCInit  == input = <<>> /\ pos = 0 /\ toks = <<>>
AddSym  == /\ pos = 0 /\ Len(input) < MaxLen
           /\ \E c \in Alphabet : input' = Append(input, c)
           /\ UNCHANGED <<pos, toks>>
Begin   == pos = 0 /\ pos' = 1 /\ UNCHANGED <<input, toks>>
MCNext  == AddSym \/ Begin \/ NextToken

Emit    == LexDone => PrintT(<<"REPLAY", ToJson([input |-> input, toks |-> toks])>>)
\* termination of the design: every state can step unless lexing is complete
NoStuck == LexDone \/ ENABLED MCNext
Full == {"@", "#", "~", "{", "}", "(", ")", "%", "|", "=", ">", "-", ":", ".", "/", "*", "&", "?", "+", "[", "]", "BS",
         "a", "0", "1", " ", "TAB", "LF", "CR", ",", "L2", "W2", "W3", "P3", "E4"}
\* block-comment terminators through runs of dashes, with content after them
Comments == {"[", "-", "]", "a"}
\* what may follow a component: notes, braces, another marker
Notes == {"~", "@", "#", "(", ")", "a", "{", "}"}
Reduced == {"@", "~", "{", "}", "(", ")", "%", "|", "=", ">", "-", ":", "[", "]", "BS", "a", "1", " ", "LF", "L2"}
=============================================================================
