CONSTANTS
  Alphabet = {"1", "0", "2", "/", ".", "-", " ", "%", "a", "=", "|", "NBSP"}
  MaxLen = 4
  Prefix <- PfxCwBrace
  Suffix <- SfxBrace
  ExtChoices <- ExtAllNone
  OsmChoices <- OnlyOsm
INIT MCInit
NEXT MCNext
INVARIANTS InvOrdered InvBracketed InvProgress2 InvFunctional2 NoStuck2 InvCovered Emit2
CHECK_DEADLOCK FALSE
