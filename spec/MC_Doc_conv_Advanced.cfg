CONSTANTS
  Ext <- NoExtensions
  Conv = "bundled"
  Variants = FALSE
  Syntax <- OnlyAdvanced
  Defects = FALSE
  Mode = "sim"
  Kernel = "full"
  MaxBlocks = 7
  MaxItems = 6
  MaxComps = 8
INIT Init
NEXT Next
INVARIANTS InvConsistent InvValidRefs InvValidity Emit
CHECK_DEADLOCK FALSE
