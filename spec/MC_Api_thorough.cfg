CONSTANTS
  MaxCalls = 6
INIT Init
NEXT MCNext
INVARIANTS InvScaledOnce InvConvertAfterScale Emit
CHECK_DEADLOCK FALSE
