CONSTANTS
  Alphabet = {"@", "&", "?", "+", "-", "(", ")", "|", "=", "1", " ", "a"}
  MaxLen = 3
  Prefix <- PfxTm
  Suffix <- SfxName
  ExtChoices <- ExtMany
  OsmChoices <- OnlyOsm
INIT MCInit
NEXT MCNext
INVARIANTS InvOrdered InvBracketed InvProgress2 InvFunctional2 NoStuck2 InvCovered Emit2
CHECK_DEADLOCK FALSE
