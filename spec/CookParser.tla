------------------------------ MODULE CookParser ------------------------------
(***************************************************************************)
(* M2 + M3 as a PARSER (CookDoc specifies them as a printer): a            *)
(* transcription of src/parser -- block splitting (mod.rs: pull_line,      *)
(* next_block, parse_block), metadata.rs, section.rs, text_block.rs,       *)
(* step.rs (components, modifiers, aliases, notes, intermediate            *)
(* references), quantity.rs (advanced / regular quantities, ranges,        *)
(* numbers, fractions) and block_parser.rs (with_recover, until,           *)
(* consume_while, text) -- over the token stream of CookLexer.             *)
(*                                                                         *)
(* The parser is a state machine over the token list: one ParseBlock       *)
(* step per block (the unit after which the real PullParser hands events   *)
(* to its consumer).  Inside a block the recursive-descent functions are   *)
(* operators that return the new cursor, the payload and the diagnostics   *)
(* they pushed, so that "with_recover restores the cursor but not the      *)
(* diagnostics" is explicit.  The result for an input is the sequence of   *)
(* events the real parser must produce, diagnostics included, with byte    *)
(* spans.                                                                  *)
(***************************************************************************)
EXTENDS CookLexer

(* ---- generic helpers --------------------------------------------------------- *)
MinOf(S) == CHOOSE m \in S : \A o \in S : m <= o
MaxOf(S) == CHOOSE m \in S : \A o \in S : m >= o
RECURSIVE CatAll(_, _)
CatAll(ss, i) == IF i > Len(ss) THEN <<>> ELSE ss[i] \o CatAll(ss, i + 1)

(* ---- context: input symbols, tokens with symbol indices, byte offsets, extensions ---- *)
RECURSIVE TokX(_, _)
TokX(inp, i) == IF i > Len(inp) THEN <<>>
                ELSE LET t == Lex(inp, i) IN <<[k |-> t.k, i |-> i, j |-> t.j]>> \o TokX(inp, t.j)
RECURSIVE OffTab(_, _, _)
OffTab(inp, i, acc) == IF i > Len(inp) THEN <<acc>> ELSE <<acc>> \o OffTab(inp, i + 1, acc + Width(inp[i]))
\* base: byte offset of the first symbol (the front matter is cut off before lexing); osm: old-style metadata allowed
Ctx(inp, ext, osm, base) == [inp |-> inp, tk |-> TokX(inp, 1), off |-> OffTab(inp, 1, base), ext |-> ext, osm |-> osm]
\* Extensions::INTERMEDIATE_PREPARATIONS carries the COMPONENT_MODIFIERS bit too
Has(x, e) == e \in x.ext \/ (e = "MODIFIERS" /\ "INTERMEDIATE" \in x.ext)
N(x)      == Len(x.tk)
KindAt(x, p) == x.tk[p].k
Peek(x, c, b1) == IF c <= b1 THEN x.tk[c].k ELSE "Eof"
TS(x, p) == x.off[x.tk[p].i]          \* start byte of token p
TE(x, p) == x.off[x.tk[p].j]          \* end byte of token p
\* BlockParser::current_offset of a parser over tokens b0.. with cursor c
CurOff(x, b0, c) == IF c > b0 THEN TE(x, c - 1) ELSE TS(x, b0)
\* until(): first token in c..b1 whose kind is in S, 0 if there is none
First(x, c, b1, S) == LET ps == {p \in c..b1 : x.tk[p].k \in S} IN IF ps = {} THEN 0 ELSE MinOf(ps)
\* consume_while(kind in S): first token in c..b1 whose kind is NOT in S, b1 + 1 if all are
Skip(x, c, b1, S)  == LET ps == {p \in c..b1 : x.tk[p].k \notin S} IN IF ps = {} THEN b1 + 1 ELSE MinOf(ps)
\* consume_while(kind not in S)
Upto(x, c, b1, S)  == LET p == First(x, c, b1, S) IN IF p = 0 THEN b1 + 1 ELSE p
WsC    == {"Whitespace", "LineComment", "BlockComment"}
WsB    == {"Whitespace", "BlockComment"}
Blank  == {"Whitespace", "LineComment", "BlockComment", "Newline"}
Diag(sev, cls, s, e) == [k |-> sev, cls |-> cls, s |-> s, e |-> e]
Err(cls, s, e)  == Diag("Error", cls, s, e)
Warn(cls, s, e) == Diag("Warning", cls, s, e)

(* ---- BlockParser::text and Text ------------------------------------------------------- *)
\* fragments of text(offset, tokens a..b): runs of symbols [i, j) and soft breaks; (st, en) is the pending run
RECURSIVE Frags(_, _, _, _, _)
Frags(x, p, b, st, en) ==
  LET flush == IF en > st THEN <<[i |-> st, j |-> en, soft |-> FALSE]>> ELSE <<>> IN
  IF p > b THEN flush
  ELSE LET t == x.tk[p] IN
    CASE t.k = "Newline" -> flush \o <<[i |-> t.i, j |-> t.j, soft |-> TRUE]>> \o Frags(x, p + 1, b, t.j, t.j)
      [] t.k \in {"LineComment", "BlockComment"} -> flush \o Frags(x, p + 1, b, t.j, t.j)
      [] t.k = "Escaped" -> flush \o Frags(x, p + 1, b, IF t.j - t.i > 1 THEN t.i + 1 ELSE t.i, t.j)
      [] OTHER -> Frags(x, p + 1, b, st, t.j)
TextOf(x, a, b, offset) ==
  IF a > b THEN [fr |-> <<>>, s |-> offset, e |-> offset]
  ELSE LET fr == Frags(x, a, b, x.tk[a].i, x.tk[a].i)
       IN [fr |-> fr, s |-> IF fr = <<>> THEN offset ELSE x.off[fr[1].i], e |-> IF fr = <<>> THEN offset ELSE x.off[fr[Len(fr)].j]]
\* Text::text(): a soft break reads as one space
FragSyms(x, f) == IF f.soft THEN <<" ">> ELSE SubSeq(x.inp, f.i, f.j - 1)
Syms(x, t) == CatAll([q \in DOMAIN t.fr |-> FragSyms(x, t.fr[q])], 1)
\* char::is_whitespace on the symbols of the alphabet (str::trim)
WhiteSyms == {" ", "TAB", "LF", "CR", "NBSP", "W2", "W3", "TSP"}
TextEmpty(x, t) == \A q \in DOMAIN t.fr : t.fr[q].soft \/ \A p \in t.fr[q].i..(t.fr[q].j - 1) : x.inp[p] \in WhiteSyms
TrimSeq(s) == LET ps == {p \in DOMAIN s : s[p] \notin WhiteSyms} IN IF ps = {} THEN <<>> ELSE SubSeq(s, MinOf(ps), MaxOf(ps))
\* text_trimmed: outer trim, then runs of ASCII spaces collapse to one
Collapse(s) == SelectSeq([p \in DOMAIN s |-> IF s[p] = " " /\ p > 1 /\ s[p - 1] = " " THEN "" ELSE s[p]], LAMBDA c : c # "")
Trimmed(x, t) == Collapse(TrimSeq(Syms(x, t)))
TextRec(x, t) == [txt |-> Syms(x, t), s |-> t.s, e |-> t.e]

(* ---- quantity.rs ---------------------------------------------------------------------------- *)
TokSyms(x, p) == SubSeq(x.inp, x.tk[p].i, x.tk[p].j - 1)
\* digit strings against a limit, without leaving TLC's 32-bit integers
DigitVal(c) == CASE c = "0" -> 0 [] c = "1" -> 1 [] c = "2" -> 2 [] c = "3" -> 3 [] c = "4" -> 4 [] c = "5" -> 5
                 [] c = "6" -> 6 [] c = "7" -> 7 [] c = "8" -> 8 [] c = "9" -> 9
RECURSIVE LexLeq(_, _, _)
LexLeq(a, b, i) == IF i > Len(a) THEN TRUE
                   ELSE IF DigitVal(a[i]) < DigitVal(b[i]) THEN TRUE
                   ELSE IF DigitVal(a[i]) > DigitVal(b[i]) THEN FALSE ELSE LexLeq(a, b, i + 1)
\* ds: digits of an Int token (no leading zero unless it is "0")
FitsIn(ds, limit) == Len(ds) < Len(limit) \/ (Len(ds) = Len(limit) /\ LexLeq(ds, limit, 1))
U32Max == <<"4", "2", "9", "4", "9", "6", "7", "2", "9", "5">>
I16Max == <<"3", "2", "7", "6", "7">>
\* a value: [t, txt] - the kind and a canonical rendering in symbols
\* f64 as Rust prints it: no leading zeros, no trailing zeros in the fraction, "0.5" for ".5"
StripZerosR(s) == LET ps == {p \in DOMAIN s : s[p] # "0"} IN IF ps = {} THEN <<>> ELSE SubSeq(s, 1, MaxOf(ps))
Decimal(ip, fp) == LET f == StripZerosR(fp) i == IF ip = <<>> THEN <<"0">> ELSE ip
                   IN [t |-> "num", txt |-> IF f = <<>> THEN i ELSE i \o <<".">> \o f]
NoVal == [t |-> "none", txt |-> <<>>]
ErrVal(d) == [t |-> "err", txt |-> <<>>, d |-> d]
IntTok(x, p) == IF FitsIn(TokSyms(x, p), U32Max) THEN [ok |-> TRUE, ds |-> TokSyms(x, p)]
                ELSE [ok |-> FALSE, d |-> Err("IntegerOverflow", TS(x, p), TE(x, p))]
FracOf(x, w, a, b) ==       \* w: digits of the whole part
  LET ia == IntTok(x, a) ib == IntTok(x, b) IN
  IF ~ia.ok THEN ErrVal(ia.d) ELSE IF ~ib.ok THEN ErrVal(ib.d)
  ELSE IF ib.ds = <<"0">> THEN ErrVal(Err("DivisionByZero", TS(x, a), TE(x, b)))
  ELSE [t |-> "frac", txt |-> w \o <<" ">> \o ia.ds \o <<"/">> \o ib.ds]
Kinds(x, a, b) == [q \in 1..(b - a + 1) |-> x.tk[a + q - 1].k]
NumericValue(x, a, b) ==
  LET ps == {p \in a..b : x.tk[p].k \notin WsC} IN
  IF ps = {} THEN NoVal
  ELSE LET ta == MinOf(ps) tb == MaxOf(ps) ks == Kinds(x, ta, tb) IN
    IF ks = <<"Int">> THEN Decimal(TokSyms(x, ta), <<>>)
    ELSE IF Len(ks) = 3 /\ ks[1] = "Int" /\ ks[2] = "Dot" /\ ks[3] \in {"Int", "ZeroInt"} THEN Decimal(TokSyms(x, ta), TokSyms(x, tb))
    ELSE IF Len(ks) = 2 /\ ks[1] = "Dot" /\ ks[2] \in {"Int", "ZeroInt"} THEN Decimal(<<>>, TokSyms(x, tb))
    ELSE LET f  == SelectSeq([q \in 1..(tb - ta + 1) |-> ta + q - 1], LAMBDA p : x.tk[p].k \notin WsC)
             fk == [q \in DOMAIN f |-> x.tk[f[q]].k]
         IN IF fk = <<"Int", "Int", "Slash", "Int">>
            THEN LET iw == IntTok(x, f[1]) IN IF ~iw.ok THEN ErrVal(iw.d) ELSE FracOf(x, iw.ds, f[2], f[4])
            ELSE IF fk = <<"Int", "Slash", "Int">> THEN FracOf(x, <<"0">>, f[1], f[3])
            ELSE NoVal
RangeValue(x, a, b) ==
  IF ~Has(x, "RANGE") THEN NoVal
  ELSE LET mid == First(x, a, b, {"Minus"}) IN
    IF mid = 0 THEN NoVal
    ELSE LET lo == NumericValue(x, a, mid - 1) IN
      IF lo.t = "none" THEN NoVal ELSE IF lo.t = "err" THEN lo
      ELSE LET hi == NumericValue(x, mid + 1, b) IN
        IF hi.t = "none" THEN NoVal ELSE IF hi.t = "err" THEN hi
        ELSE [t |-> "range", txt |-> lo.txt \o <<".", ".">> \o hi.txt]
RangeOrNumeric(x, a, b) == LET r == RangeValue(x, a, b) IN IF r.t # "none" THEN r ELSE NumericValue(x, a, b)
Recovered == [t |-> "num", txt |-> <<"1">>]
\* a parsed quantity: [s, e, lock, v, vs, ve, unit, sep, d]; unit and sep are <<>> or a one-element sequence
\* parse_advanced_quantity over tokens q0..q1: [ok |-> FALSE] or the quantity
Advanced(x, q0, q1) ==
  IF \E p \in q0..q1 : x.tk[p].k = "Percent" THEN [ok |-> FALSE]
  ELSE LET c1 == Skip(x, q0, q1, WsC)
           lock == Peek(x, c1, q1) = "Eq"
           c2 == Skip(x, IF lock THEN c1 + 1 ELSE c1, q1, WsC)
           c3 == Upto(x, c2, q1, {"Word"})                 \* value tokens c2..c3-1, unit tokens c3..q1
       IN IF c3 = c2 \/ x.tk[c3 - 1].k # "Whitespace" \/ c3 > q1 THEN [ok |-> FALSE]
          ELSE LET ve == MaxOf({p \in c2..(c3 - 1) : x.tk[p].k \notin WsB})
                   r  == RangeOrNumeric(x, c2, ve)
               IN IF r.t = "none" THEN [ok |-> FALSE]
                  ELSE [ok |-> TRUE, s |-> TS(x, q0), e |-> TE(x, q1), lock |-> lock,
                        v |-> IF r.t = "err" THEN Recovered ELSE r, vs |-> TS(x, c2), ve |-> TE(x, ve),
                        unit |-> <<TextRec(x, TextOf(x, c3, q1, TS(x, c3)))>>, sep |-> <<>>,
                        d |-> IF r.t = "err" THEN <<r.d>> ELSE <<>>]
Regular(x, q0, q1) ==
  LET c1 == Skip(x, q0, q1, WsC)
      lock == Peek(x, c1, q1) = "Eq"
      c2 == IF lock THEN c1 + 1 ELSE c1
      p  == Upto(x, c2, q1, {"Percent"})                  \* value tokens c2..p-1
      vs == IF p > c2 THEN TS(x, c2) ELSE CurOff(x, q0, p)
      ve == CurOff(x, q0, p)
      r  == RangeOrNumeric(x, c2, p - 1)
      tx == TextOf(x, c2, p - 1, vs)
      val == IF r.t = "err" THEN Recovered ELSE IF r.t # "none" THEN r ELSE [t |-> "text", txt |-> Trimmed(x, tx)]
      vd  == IF r.t = "err" THEN <<r.d>>
             ELSE IF r.t = "none" /\ TextEmpty(x, tx) THEN <<Err("EmptyValue", tx.s, tx.e)>> ELSE <<>>
      hasSep == p <= q1
      ut == TextOf(x, p + 1, q1, IF hasSep THEN TE(x, p) ELSE 0)
      unitEmpty == hasSep /\ TextEmpty(x, ut)
  IN [ok |-> TRUE, s |-> TS(x, q0), e |-> TE(x, q1), lock |-> lock, v |-> val, vs |-> vs, ve |-> ve,
      unit |-> IF hasSep /\ ~unitEmpty THEN <<TextRec(x, ut)>> ELSE <<>>,
      sep |-> IF hasSep THEN <<[s |-> TS(x, p), e |-> TE(x, p)]>> ELSE <<>>,
      d |-> vd \o (IF unitEmpty THEN <<Warn("EmptyUnit", TS(x, p), TE(x, p))>> ELSE <<>>)]
ParseQuantity(x, q0, q1) ==
  LET a == IF Has(x, "ADVANCED_UNITS") THEN Advanced(x, q0, q1) ELSE [ok |-> FALSE]
  IN IF a.ok THEN a ELSE Regular(x, q0, q1)
QRec(q) == [s |-> q.s, e |-> q.e, lock |-> q.lock, v |-> q.v, vs |-> q.vs, ve |-> q.ve, unit |-> q.unit]
RecoveredQ == [s |-> 0, e |-> 0, lock |-> FALSE, v |-> Recovered, vs |-> 0, ve |-> 0, unit |-> <<>>]

(* ---- step.rs ------------------------------------------------------------------------------------ *)
\* comp_body: braces form first, then the single word form (each under with_recover)
CompBody(x, b0, b1, c) ==
  LET p == First(x, c, b1, {"OpenBrace", "At", "Hash", "Tilde"})
      q == IF p # 0 /\ x.tk[p].k = "OpenBrace" THEN First(x, p + 1, b1, {"CloseBrace"}) ELSE 0
  IN IF q # 0
     THEN [ok |-> TRUE, n0 |-> c, n1 |-> p - 1, close |-> <<[s |-> TS(x, p), e |-> TE(x, q)]>>,
           hasq |-> \E t \in (p + 1)..(q - 1) : x.tk[t].k \notin WsB, q0 |-> p + 1, q1 |-> q - 1, c |-> q + 1, d |-> <<>>]
     ELSE LET w == Skip(x, c, b1, {"Word", "Int", "ZeroInt"}) IN
          IF w = c
          THEN [ok |-> FALSE, d |-> IF c <= b1 /\ x.tk[c].k # "Whitespace"
                                    THEN <<Warn("InvalidSingleWord", CurOff(x, b0, c), CurOff(x, b0, c))>> ELSE <<>>]
          ELSE [ok |-> TRUE, n0 |-> c, n1 |-> w - 1, close |-> <<>>, hasq |-> FALSE, q0 |-> 1, q1 |-> 0, c |-> w, d |-> <<>>]
\* modifiers(): the cursor after the modifier tokens
RECURSIVE ModEnd(_, _, _)
ModEnd(x, b1, c) ==
  IF ~Has(x, "MODIFIERS") THEN c
  ELSE LET k == Peek(x, c, b1) IN
    IF k \in {"At", "Question", "Plus", "Minus"} THEN ModEnd(x, b1, c + 1)
    ELSE IF k = "And"
    THEN LET r == IF Has(x, "INTERMEDIATE") /\ Peek(x, c + 1, b1) = "OpenParen" THEN First(x, c + 2, b1, {"CloseParen"}) ELSE 0
         IN ModEnd(x, b1, IF r # 0 THEN r + 1 ELSE c + 1)
    ELSE c
\* note(): `(` ... `)` right after the body
Note(x, b1, c) ==
  LET r == IF Peek(x, c, b1) = "OpenParen" THEN First(x, c + 1, b1, {"CloseParen"}) ELSE 0
  IN IF r = 0 THEN [has |-> FALSE, c |-> c]
     ELSE [has |-> TRUE, c |-> r + 1, text |-> TextOf(x, c + 1, r - 1, TE(x, c)), s |-> TS(x, c), e |-> TE(x, r)]
\* parse_intermediate_ref_data on `(` lp .. rp `)`
InterData(x, lp, rp) ==
  LET f  == SelectSeq([q \in 1..(rp - lp - 1) |-> lp + q], LAMBDA p : x.tk[p].k \notin WsB)
      fk == [q \in DOMAIN f |-> x.tk[f[q]].k]
      n  == Len(f)
      Data(mode, kind, it) ==
         IF FitsIn(TokSyms(x, it), I16Max)
         THEN [v |-> <<[mode |-> mode, kind |-> kind, val |-> TokSyms(x, it), s |-> TS(x, lp), e |-> TE(x, rp)]>>, d |-> <<>>]
         ELSE [v |-> <<>>, d |-> <<Err("IntegerOverflow", TS(x, it), TE(x, it))>>]
  IN CASE fk = <<"Int">>                -> Data("Number", "Step", f[1])
       [] fk = <<"Tilde", "Int">>       -> Data("Relative", "Step", f[2])
       [] fk = <<"Eq", "Int">>          -> Data("Number", "Section", f[2])
       [] fk = <<"Eq", "Tilde", "Int">> -> Data("Relative", "Section", f[3])
       [] fk = <<>>                      -> [v |-> <<>>, d |-> <<Err("InterEmpty", TS(x, lp), TE(x, rp))>>]
       [] fk = <<"Tilde", "Eq", "Int">> -> [v |-> <<>>, d |-> <<Err("InterWrongOrder", TS(x, f[1]), TE(x, f[1]))>>]
       [] n >= 2 /\ fk # <<"Tilde", "Int">> /\ fk # <<"Eq", "Int">> /\ fk # <<"Eq", "Tilde", "Int">> /\ fk # <<"Tilde", "Eq", "Int">>
          /\ fk[n] = "Int" /\ fk[n - 1] \in {"Minus", "Plus"}
                                         -> [v |-> <<>>, d |-> <<Err("InterValueSign", TS(x, f[n - 1]), TE(x, f[n - 1]))>>]
       [] OTHER                          -> [v |-> <<>>, d |-> <<Err("InterInvalid", TS(x, lp + 1), TE(x, rp - 1))>>]
\* parse_modifiers over the modifier tokens p..m1 (m0 is their first): flags, intermediate data, diagnostics
ModName(k) == CASE k = "At" -> "recipe" [] k = "And" -> "ref" [] k = "Question" -> "opt" [] k = "Plus" -> "new" [] k = "Minus" -> "hidden"
RECURSIVE PM(_, _, _, _, _, _, _)
PM(x, p, m0, m1, mods, inter, d) ==
  IF p > m1 THEN [mods |-> mods, inter |-> inter, d |-> d]
  ELSE LET k == x.tk[p].k
           paren == k = "And" /\ Has(x, "INTERMEDIATE") /\ p + 1 <= m1 /\ x.tk[p + 1].k = "OpenParen"
           r == IF paren THEN First(x, p + 2, m1, {"CloseParen"}) ELSE 0
           idr == IF paren THEN InterData(x, p + 1, r) ELSE [v |-> <<>>, d |-> <<>>]
           inter2 == IF k = "And" /\ Has(x, "INTERMEDIATE") THEN idr.v ELSE inter   \* a later `&` overwrites it
           dup == IF ModName(k) \in mods THEN <<Err("DuplicateModifier", TS(x, m0), TE(x, m1))>> ELSE <<>>
       IN PM(x, IF paren THEN r + 1 ELSE p + 1, m0, m1, mods \cup {ModName(k)}, inter2, d \o idr.d \o dup)
ParseModifiers(x, m0, m1, mpos) ==
  IF m0 > m1 THEN [mods |-> {}, inter |-> <<>>, d |-> <<>>, s |-> mpos, e |-> mpos]
  ELSE LET r == PM(x, m0, m0, m1, {}, <<>>, <<>>) IN [mods |-> r.mods, inter |-> r.inter, d |-> r.d, s |-> TS(x, m0), e |-> TE(x, m1)]
ModOrder == <<"recipe", "ref", "hidden", "opt", "new">>
ModSeq(ms) == SelectSeq(ModOrder, LAMBDA m : m \in ms)
\* parse_alias over the name tokens n0..n1
ParseAlias(x, n0, n1, nameOffset) ==
  LET sep == IF Has(x, "ALIAS") THEN First(x, n0, n1, {"Or"}) ELSE 0 IN
  IF sep = 0 THEN [name |-> TextOf(x, n0, n1, nameOffset), alias |-> <<>>, d |-> <<>>]
  ELSE LET at == TextOf(x, sep + 1, n1, TE(x, sep)) IN
       IF First(x, sep + 1, n1, {"Or"}) # 0
       THEN [name |-> TextOf(x, n0, sep - 1, nameOffset), alias |-> <<>>, d |-> <<Err("MultipleAliases", TS(x, sep), TE(x, n1))>>]
       ELSE IF TextEmpty(x, at)
       THEN [name |-> TextOf(x, n0, sep - 1, nameOffset), alias |-> <<>>, d |-> <<Err("EmptyAlias", TS(x, sep), TE(x, sep))>>]
       ELSE [name |-> TextOf(x, n0, sep - 1, nameOffset), alias |-> <<TextRec(x, at)>>, d |-> <<>>]
EmptyNameDiag(x, name) == IF TextEmpty(x, name) THEN <<Err("EmptyName", name.s, name.e)>> ELSE <<>>

\* a component parser returns [ok, c, ev, d]: on failure the cursor is restored by the caller, d stays
Ingredient(x, b0, b1, c) ==
  LET m1 == ModEnd(x, b1, c + 1)
      body == CompBody(x, b0, b1, m1)
  IN IF ~body.ok THEN [ok |-> FALSE, d |-> body.d]
     ELSE LET nt == Note(x, b1, body.c)
              al == ParseAlias(x, body.n0, body.n1, CurOff(x, b0, m1))
              pm == ParseModifiers(x, c + 1, m1 - 1, TE(x, c))
              q  == IF body.hasq THEN ParseQuantity(x, body.q0, body.q1) ELSE [d |-> <<>>]
          IN [ok |-> TRUE, c |-> nt.c,
              d |-> al.d \o EmptyNameDiag(x, al.name) \o pm.d \o q.d,
              ev |-> [k |-> "Ingredient", s |-> TS(x, c), e |-> CurOff(x, b0, nt.c), mods |-> ModSeq(pm.mods), ms |-> pm.s, me |-> pm.e,
                      inter |-> pm.inter, name |-> TextRec(x, al.name), alias |-> al.alias,
                      q |-> IF body.hasq THEN <<QRec(q)>> ELSE <<>>,
                      note |-> IF nt.has THEN <<TextRec(x, nt.text)>> ELSE <<>>]]
Cookware(x, b0, b1, c) ==
  LET m1 == ModEnd(x, b1, c + 1)
      body == CompBody(x, b0, b1, m1)
  IN IF ~body.ok THEN [ok |-> FALSE, d |-> body.d]
     ELSE LET nt == Note(x, b1, body.c)
              al == ParseAlias(x, body.n0, body.n1, CurOff(x, b0, m1))
              pm == ParseModifiers(x, c + 1, m1 - 1, TE(x, c))
              q  == IF body.hasq THEN ParseQuantity(x, body.q0, body.q1) ELSE [d |-> <<>>]
              unitErr == IF body.hasq /\ q.unit # <<>>
                         THEN <<Err("CookwareUnit", IF q.sep # <<>> THEN q.sep[1].s ELSE q.unit[1].s, q.unit[1].e)>> ELSE <<>>
              interErr == IF pm.inter # <<>> THEN <<Err("CookwareIntermediate", pm.inter[1].s, pm.inter[1].e)>> ELSE <<>>
              at == First(x, c + 1, m1 - 1, {"At"})
              recipeErr == IF "recipe" \in pm.mods THEN <<Err("CookwareRecipeModifier", TS(x, at), TE(x, at))>> ELSE <<>>
          IN [ok |-> TRUE, c |-> nt.c,
              d |-> al.d \o EmptyNameDiag(x, al.name) \o q.d \o unitErr \o pm.d \o interErr \o recipeErr,
              ev |-> [k |-> "Cookware", s |-> TS(x, c), e |-> CurOff(x, b0, nt.c), mods |-> ModSeq(pm.mods), ms |-> pm.s, me |-> pm.e,
                      name |-> TextRec(x, al.name), alias |-> al.alias,
                      q |-> IF body.hasq THEN <<[QRec(q) EXCEPT !.unit = <<>>]>> ELSE <<>>,
                      note |-> IF nt.has THEN <<TextRec(x, nt.text)>> ELSE <<>>]]
Timer(x, b0, b1, c) ==
  LET m1 == ModEnd(x, b1, c + 1)
      nameOffset == CurOff(x, b0, m1)
      body == CompBody(x, b0, b1, m1)
  IN IF ~body.ok THEN [ok |-> FALSE, d |-> body.d]
     ELSE LET modErr == IF m1 > c + 1 THEN <<Err("TimerModifiers", TS(x, c + 1), TE(x, m1 - 1))>> ELSE <<>>
              sep == IF Has(x, "ALIAS") THEN First(x, body.n0, body.n1, {"Or"}) ELSE 0
              aliasErr == IF sep # 0 THEN <<Err("TimerAlias", TS(x, sep), TE(x, body.n1))>> ELSE <<>>
              nt == Note(x, b1, body.c)                                   \* looked at, never consumed
              noteWarn == IF nt.has THEN <<Warn("TimerNote", nt.s, nt.e)>> ELSE <<>>
              name == TextOf(x, body.n0, body.n1, nameOffset)
              q  == IF body.hasq THEN ParseQuantity(x, body.q0, body.q1) ELSE [d |-> <<>>]
              unitErr == IF body.hasq /\ q.unit = <<>> THEN <<Err("TimerMissingUnit", q.ve, q.ve)>> ELSE <<>>
              needQ == ~body.hasq /\ Has(x, "TIMER_REQ")
              needErr == IF needQ THEN <<IF body.close # <<>> THEN Err("TimerMissingQuantity", body.close[1].s, body.close[1].e)
                                                             ELSE Err("TimerMissingQuantity", name.e, name.e)>> ELSE <<>>
              noName == TextEmpty(x, name)
              neither == noName /\ ~body.hasq /\ ~needQ
              neitherErr == IF neither THEN <<IF body.close # <<>> THEN Err("TimerEmpty", nameOffset, body.close[1].e)
                                                                  ELSE Err("TimerEmpty", nameOffset, nameOffset)>> ELSE <<>>
          IN [ok |-> TRUE, c |-> body.c,
              d |-> modErr \o aliasErr \o noteWarn \o q.d \o unitErr \o needErr \o neitherErr,
              ev |-> [k |-> "Timer", s |-> TS(x, c), e |-> CurOff(x, b0, body.c),
                      name |-> IF noName THEN <<>> ELSE <<TextRec(x, name)>>,
                      q |-> IF body.hasq THEN <<QRec(q)>> ELSE IF needQ \/ neither THEN <<RecoveredQ>> ELSE <<>>]]

\* one iteration of the loop of parse_step at cursor c: [c, evs]
StepIter(x, b0, b1, c) ==
  LET k == x.tk[c].k
      r == CASE k = "At" -> Ingredient(x, b0, b1, c) [] k = "Hash" -> Cookware(x, b0, b1, c) [] k = "Tilde" -> Timer(x, b0, b1, c)
             [] OTHER -> [ok |-> FALSE, d |-> <<>>]
  IN IF r.ok THEN [c |-> r.c, evs |-> r.d \o <<r.ev>>]
     ELSE LET e == Upto(x, c + 1, b1, {"At", "Hash", "Tilde"})
              t == TextOf(x, c, e - 1, CurOff(x, b0, c))
          IN [c |-> e, evs |-> r.d \o (IF t.fr # <<>> THEN <<[k |-> "Text", s |-> t.s, e |-> t.e, txt |-> Syms(x, t)]>> ELSE <<>>)]
RECURSIVE StepLoop(_, _, _, _)
StepLoop(x, b0, b1, c) == IF c > b1 THEN <<>> ELSE LET it == StepIter(x, b0, b1, c) IN it.evs \o StepLoop(x, b0, b1, it.c)
ParseStep(x, b0, b1) == <<[k |-> "Start", b |-> "Step"]>> \o StepLoop(x, b0, b1, b0) \o <<[k |-> "End", b |-> "Step"]>>

(* ---- text_block.rs --------------------------------------------------------------------------------- *)
RECURSIVE TextLoop(_, _, _, _)
TextLoop(x, b0, b1, c) ==
  IF c > b1 THEN <<>>
  ELSE LET c1 == IF x.tk[c].k = "TextStep" THEN (IF Peek(x, c + 1, b1) = "Whitespace" THEN c + 2 ELSE c + 1) ELSE c
           nl == First(x, c1, b1, {"Newline"})
           last == IF nl = 0 THEN b1 ELSE nl
           t == TextOf(x, c1, last, CurOff(x, b0, c1))
       IN (IF ~TextEmpty(x, t) THEN <<[k |-> "Text", s |-> t.s, e |-> t.e, txt |-> Syms(x, t)]>> ELSE <<>>)
          \o TextLoop(x, b0, b1, last + 1)
ParseTextBlock(x, b0, b1) == <<[k |-> "Start", b |-> "Text"]>> \o TextLoop(x, b0, b1, b0) \o <<[k |-> "End", b |-> "Text"]>>

(* ---- metadata.rs, section.rs, parse_block ------------------------------------------------------------- *)
\* metadata_entry: [ok, d, ev]
MetadataEntry(x, b0, b1) ==
  LET p == First(x, b0 + 1, b1, {"Colon"}) IN
  IF p = 0 THEN [ok |-> FALSE, d |-> <<Warn("InvalidMetadataBlock", TS(x, b0), TE(x, b1))>>]
  ELSE LET key == TextOf(x, b0 + 1, p - 1, TE(x, b0))
           val == TextOf(x, p + 1, b1, TE(x, p))
           d == IF TextEmpty(x, key) THEN <<Err("EmptyMetadataKey", key.s, key.e)>>
                ELSE IF TextEmpty(x, val) THEN <<Warn("EmptyMetadataValue", val.s, val.e)>> ELSE <<>>
           kt == TrimSeq(Syms(x, key))
           config == kt # <<>> /\ kt[1] = "[" /\ kt[Len(kt)] = "]"
       IN [ok |-> (config /\ Has(x, "MODES")) \/ x.osm, d |-> d,
           ev |-> [k |-> "Metadata", key |-> Syms(x, key), ks |-> key.s, ke |-> key.e, val |-> Syms(x, val), vs |-> val.s, ve |-> val.e]]
Section(x, b0, b1) ==
  LET c1 == Skip(x, b0 + 1, b1, {"Eq"})
      p  == Upto(x, c1, b1, {"Eq"})
      name == TextOf(x, c1, p - 1, CurOff(x, b0, c1))
      c3 == Skip(x, Skip(x, p, b1, {"Eq"}), b1, WsC)
  IN IF c3 <= b1 THEN [ok |-> FALSE, d |-> <<Warn("InvalidSectionBlock", TS(x, c3), TE(x, b1))>>]
     ELSE [ok |-> TRUE, d |-> <<>>,
           ev |-> IF TextEmpty(x, name) THEN [k |-> "Section", has |-> FALSE, name |-> <<>>, s |-> 0, e |-> 0]
                  ELSE [k |-> "Section", has |-> TRUE, name |-> Syms(x, name), s |-> name.s, e |-> name.e]]
ParseMultiline(x, b0, b1) ==
  IF \A p \in b0..b1 : x.tk[p].k \in Blank THEN <<>>
  ELSE IF x.tk[b0].k = "TextStep" THEN ParseTextBlock(x, b0, b1) ELSE ParseStep(x, b0, b1)
\* parse_block: the events of one block (diagnostics of a rejected metadata / section attempt stay in front)
ParseBlock(x, b0, b1) ==
  LET k == x.tk[b0].k
      r == CASE k = "MetadataStart" -> MetadataEntry(x, b0, b1) [] k = "Eq" -> Section(x, b0, b1) [] OTHER -> [ok |-> FALSE, d |-> <<>>]
  IN IF r.ok THEN r.d \o <<r.ev>> ELSE r.d \o ParseMultiline(x, b0, b1)

(* ---- next_block: block splitting ------------------------------------------------------------------------- *)
LineEnd(x, t) == LET nl == First(x, t, N(x), {"Newline"}) IN IF nl = 0 THEN N(x) ELSE nl
EmptyLine(x, t) == \A p \in t..LineEnd(x, t) : x.tk[p].k \in Blank
SingleLineMarker(x, t) == t <= N(x) /\ x.tk[t].k \in {"MetadataStart", "Eq"}
RECURSIVE SkipEmpty(_, _)
SkipEmpty(x, t) == IF t > N(x) THEN N(x) + 1 ELSE IF EmptyLine(x, t) THEN SkipEmpty(x, LineEnd(x, t) + 1) ELSE t
\* e: last token of the block so far; result: [last token of the block, first token after what was consumed]
RECURSIVE Extend(_, _)
Extend(x, e) ==
  IF e + 1 > N(x) THEN [last |-> e, next |-> N(x) + 1]
  ELSE IF SingleLineMarker(x, e + 1) THEN [last |-> e, next |-> e + 1]
  ELSE IF EmptyLine(x, e + 1) THEN [last |-> e, next |-> LineEnd(x, e + 1) + 1]
  ELSE Extend(x, LineEnd(x, e + 1))
RECURSIVE TrimNewlines(_, _, _)
TrimNewlines(x, s, e) == IF e > s /\ x.tk[e].k = "Newline" THEN TrimNewlines(x, s, e - 1) ELSE e
\* the block that starts at or after token t: [none] or [b0, b1, next]
NextBlock(x, t) ==
  LET s == SkipEmpty(x, t) IN
  IF s > N(x) THEN [none |-> TRUE]
  ELSE LET r == IF SingleLineMarker(x, s) THEN [last |-> LineEnd(x, s), next |-> LineEnd(x, s) + 1] ELSE Extend(x, LineEnd(x, s))
       IN [none |-> FALSE, b0 |-> s, b1 |-> TrimNewlines(x, s, r.last), next |-> r.next]
RECURSIVE DocFrom(_, _)
DocFrom(x, t) == LET b == NextBlock(x, t) IN IF b.none THEN <<>> ELSE ParseBlock(x, b.b0, b.b1) \o DocFrom(x, b.next)
\* every event the pull parser yields for the input, in order
ParseDoc(inp, ext, osm, base) == DocFrom(Ctx(inp, ext, osm, base), 1)

(* ---- frontmatter.rs: the YAML front matter is cut off before lexing ----------------------------------------- *)
\* lines as split_inclusive('\n') gives them: [from, to] symbol indices, the LF included
RECURSIVE LinesFrom(_, _)
LinesFrom(inp, i) == IF i > Len(inp) THEN <<>>
                     ELSE LET nl == {p \in i..Len(inp) : inp[p] = "LF"}
                              e  == IF nl = {} THEN Len(inp) ELSE MinOf(nl)
                          IN <<[a |-> i, b |-> e]>> \o LinesFrom(inp, e + 1)
\* line.trim_end() == "---"
IsFence(inp, ln) == LET body == SubSeq(inp, ln.a, ln.b)
                        ps == {p \in DOMAIN body : body[p] \notin WhiteSyms}
                    IN ps # {} /\ SubSeq(body, 1, MaxOf(ps)) = <<"-", "-", "-">>
\* parse_frontmatter: only when the first line is a fence and another fence follows
FrontSplit(inp) ==
  LET ls == LinesFrom(inp, 1)
      fs == {q \in DOMAIN ls : IsFence(inp, ls[q])}
  IN IF ls = <<>> \/ 1 \notin fs \/ fs \ {1} = {} THEN [has |-> FALSE]
     ELSE LET second == MinOf(fs \ {1})
          IN [has |-> TRUE, yamlFrom |-> ls[1].b + 1, yamlTo |-> ls[second].a - 1, cook |-> ls[second].b + 1]
\* every event of PullParser::new(input, ext), the front matter event included
ParseWhole(inp, ext) ==
  LET f == FrontSplit(inp) IN
  IF ~f.has THEN ParseDoc(inp, ext, TRUE, 0)
  ELSE LET off == OffTab(inp, 1, 0)
           fm == [k |-> "FrontMatter", txt |-> SubSeq(inp, f.yamlFrom, f.yamlTo),
                  s |-> off[f.yamlFrom], e |-> IF f.yamlTo >= f.yamlFrom THEN off[f.yamlTo + 1] ELSE off[f.yamlFrom]]
       IN <<fm>> \o ParseDoc(SubSeq(inp, f.cook, Len(inp)), ext, FALSE, off[f.cook])

(* ---- ast.rs: build_ast folds the events into blocks --------------------------------------------------------------- *)
\* state: [blocks, items]; diagnostics go to the report, the front matter has no block
AstStep(st, ev) ==
  CASE ev.k \in {"Error", "Warning", "FrontMatter"} -> st
    [] ev.k \in {"Metadata", "Section"} -> [st EXCEPT !.blocks = Append(@, ev)]
    [] ev.k = "Start" -> [st EXCEPT !.items = <<>>]
    [] ev.k = "End" -> IF ev.b = "Step"
                       THEN [blocks |-> IF st.items = <<>> THEN st.blocks ELSE Append(st.blocks, [k |-> "Step", items |-> st.items]), items |-> <<>>]
                       ELSE [blocks |-> Append(st.blocks, [k |-> "TextBlock", items |-> st.items]), items |-> <<>>]
    [] OTHER -> [st EXCEPT !.items = Append(@, ev)]
RECURSIVE AstFold(_, _, _)
AstFold(st, evs, q) == IF q > Len(evs) THEN st ELSE AstFold(AstStep(st, evs[q]), evs, q + 1)
AstOf(evs) == AstFold([blocks |-> <<>>, items |-> <<>>], evs, 1).blocks
\* the obligation build_ast puts on the parser (it panics otherwise): inside a text block there are only texts
TextBlocksHoldTexts(evs) == \A b \in {AstOf(evs)[q] : q \in DOMAIN AstOf(evs)} : b.k = "TextBlock" => \A q \in DOMAIN b.items : b.items[q].k = "Text"

(* ---- what the events owe their consumer (checked on the model, and on recorded events) --------------------- *)
IsDiag(ev) == ev.k \in {"Error", "Warning"}
Spanned(ev) == ev.k \in {"Text", "Ingredient", "Cookware", "Timer"}
\* located events are in input order, inside the input, non-overlapping
EventsInOrder(evs, len) ==
  LET sp == SelectSeq(evs, Spanned) IN
  /\ \A q \in DOMAIN sp : sp[q].s <= sp[q].e /\ sp[q].e <= len
  /\ \A q \in 1..(Len(sp) - 1) : sp[q].e <= sp[q + 1].s
\* Start/End bracket steps and text blocks, components only inside steps (same grammar as CookSpans!EventGrammar)
RECURSIVE Bracketed(_, _, _)
Bracketed(evs, q, mode) ==
  IF q > Len(evs) THEN mode = "out"
  ELSE LET ev == evs[q] IN
    CASE IsDiag(ev) -> Bracketed(evs, q + 1, mode)
      [] ev.k = "FrontMatter" -> q = 1 /\ Bracketed(evs, q + 1, mode)
      [] ev.k \in {"Metadata", "Section"} -> mode = "out" /\ Bracketed(evs, q + 1, mode)
      [] ev.k = "Start" -> mode = "out" /\ Bracketed(evs, q + 1, ev.b)
      [] ev.k = "End" -> mode = ev.b /\ Bracketed(evs, q + 1, "out")
      [] ev.k = "Text" -> mode # "out" /\ Bracketed(evs, q + 1, mode)
      [] OTHER -> mode = "Step" /\ Bracketed(evs, q + 1, mode)
\* C05 on the specification: without an error event every letter or digit outside comments lies in some event's span
AlnumSyms == Letters \cup Digits
EventSpans(ev) == CASE ev.k \in {"Text", "Ingredient", "Cookware", "Timer"} -> {<<ev.s, ev.e>>}
                    [] ev.k = "Metadata" -> {<<ev.ks, ev.ke>>, <<ev.vs, ev.ve>>}
                    [] ev.k = "Section" -> IF ev.has THEN {<<ev.s, ev.e>>} ELSE {}
                    [] OTHER -> {}
CoveredBySpec(x, evs) ==
  LET spans == UNION {EventSpans(evs[q]) : q \in DOMAIN evs}
      inComment == UNION {x.tk[p].i..(x.tk[p].j - 1) : p \in {t \in DOMAIN x.tk : x.tk[t].k \in {"LineComment", "BlockComment"}}}
  IN (\E q \in DOMAIN evs : evs[q].k = "Error")
     \/ \A p \in DOMAIN x.inp : (x.inp[p] \in AlnumSyms /\ p \notin inComment) => \E sp \in spans : sp[1] <= x.off[p] /\ x.off[p] < sp[2]

(* ---- views used when recorded events are compared with the specification (Trace_Parser) ---------------------- *)
TxtOf(o) == IF o = <<>> THEN <<>> ELSE <<o[1].txt>>
QPayload(o) == IF o = <<>> THEN <<>> ELSE <<[lock |-> o[1].lock, v |-> o[1].v, unit |-> TxtOf(o[1].unit)]>>
InterPayload(o) == IF o = <<>> THEN <<>> ELSE <<[mode |-> o[1].mode, kind |-> o[1].kind, val |-> o[1].val]>>
\* what an event says, without where it says it
Payload(ev) ==
  CASE ev.k \in {"Start", "End"} -> [k |-> ev.k, b |-> ev.b]
    [] ev.k = "Text" -> [k |-> "Text", txt |-> ev.txt]
    [] ev.k = "Metadata" -> [k |-> "Metadata", key |-> ev.key, val |-> ev.val]
    [] ev.k = "Section" -> [k |-> "Section", has |-> ev.has, name |-> ev.name]
    [] ev.k = "Ingredient" -> [k |-> "Ingredient", mods |-> ev.mods, inter |-> InterPayload(ev.inter), name |-> ev.name.txt,
                               alias |-> TxtOf(ev.alias), q |-> QPayload(ev.q), note |-> TxtOf(ev.note)]
    [] ev.k = "Cookware" -> [k |-> "Cookware", mods |-> ev.mods, name |-> ev.name.txt, alias |-> TxtOf(ev.alias), q |-> QPayload(ev.q),
                             note |-> TxtOf(ev.note)]
    [] ev.k = "Timer" -> [k |-> "Timer", name |-> TxtOf(ev.name), q |-> QPayload(ev.q)]
    [] ev.k = "FrontMatter" -> [k |-> "FrontMatter", txt |-> ev.txt]
    [] OTHER -> [k |-> ev.k, cls |-> ev.cls]
NonDiag(evs) == SelectSeq(evs, LAMBDA ev : ~IsDiag(ev))
Diags(evs)   == SelectSeq(evs, IsDiag)
Payloads(evs) == [q \in DOMAIN evs |-> Payload(evs[q])]
\* two spans touch: they overlap or share an end point (a zero-width label sits at a position)
Touch(s1, e1, s2, e2) == s1 <= e2 /\ s2 <= e1
=============================================================================
