CONSTANTS
  Alphabet <- Full
  MaxLen = 3
INIT MCInit
NEXT MCNext
INVARIANTS InvPrefixTiles InvProgress InvFunctional InvNewline NoStuck Emit
CHECK_DEADLOCK FALSE
