CONSTANTS
  Alphabet = {">", ":", "=", "a", " ", "LF", "@", "-", "[", "]", "{", "}"}
  MaxLen = 4
  Prefix <- NoSeq
  Suffix <- NoSeq
  ExtChoices <- ExtModes
  OsmChoices <- BothOsm
INIT MCInit
NEXT MCNext
INVARIANTS InvOrdered InvBracketed InvProgress2 InvFunctional2 NoStuck2 InvCovered Emit2
CHECK_DEADLOCK FALSE
