------------------------------ MODULE Trace_Group ------------------------------
(* Trace specification for C10 (groups): each record is a sequence of add / merge *)
(* operations (printed by MC_Group) replayed on the real GroupedQuantity with the  *)
(* totals per class observed after every step.  The expected totals are           *)
(* recomputed here from the operations with CookGroup's own operators.            *)
EXTENDS CookGroup, Json, IOUtils
VARIABLES l
Recs == ndJsonDeserialize(IOEnv.TRACE)
\* inputs of group k after the first n operations (a merge moves the inputs of group 2 into group 1 as well)
RECURSIVE Inputs(_, _, _)
Inputs(ops, n, k) == IF n = 0 THEN <<>>
                     ELSE LET o == ops[n] prev == Inputs(ops, n - 1, k) IN
                          IF o.op = "add" THEN (IF o.g = k THEN Append(prev, o.q) ELSE prev)
                          ELSE (IF k = 1 THEN prev \o Inputs(ops, n - 1, 2) ELSE prev)
AsSet(x) == {x[i] : i \in DOMAIN x}
Matches(obs, inputs) == AsSet(obs.classes) = ClassTotals(inputs) /\ AsSet(obs.texts) = TextBag(inputs) /\ obs.exact
Clauses == {"Returns", "ConservesAfterEveryStep", "FitConserves", "FinalTotalsAsSpecified", "LenConsistent", "ConservesAtAnyScale", "BundledTotalsConserved"}
Holds(c, r) ==
  CASE c = "Returns" -> r.obs.st = "ok"
    [] c = "ConservesAfterEveryStep" -> \A n \in DOMAIN r.obs.steps :
            Matches(r.obs.steps[n].g1, Inputs(r.ops, n, 1)) /\ Matches(r.obs.steps[n].g2, Inputs(r.ops, n, 2))
    [] c = "FitConserves" -> \A n \in DOMAIN r.obs.steps : Matches(r.obs.steps[n].g1fit, Inputs(r.ops, n, 1))
    [] c = "FinalTotalsAsSpecified" -> (r.obs.st = "ok" /\ r.obs.steps # <<>>) =>
            LET last == r.obs.steps[Len(r.obs.steps)] IN AsSet(last.g1.classes) = AsSet(r.totals1) /\ AsSet(last.g1.texts) = AsSet(r.texts1)
    \* the same operations with every amount divided by 3 and by 7000 (multiplied back by the recorder)
    [] c = "ConservesAtAnyScale" -> (r.obs.st = "ok" /\ r.obs.steps # <<>>) =>
            (AsSet(r.obs.final3.classes) = AsSet(r.totals1) /\ r.obs.final3.exact /\ AsSet(r.obs.final7000.classes) = AsSet(r.totals1) /\ r.obs.final7000.exact)
    \* the bundled converter (fractions on): a number or range added in two halves and fitted is the same physical amount
    [] c = "BundledTotalsConserved" -> ("kind" \in DOMAIN r /\ r.kind = "bundledfit") => r.preserved
    [] c = "LenConsistent" -> \A n \in DOMAIN r.obs.steps : r.obs.steps[n].len1 = r.obs.steps[n].vec1
Failed(r) == {c \in Clauses : ~Holds(c, r)}
TInit == l = 1
TNext == /\ l <= Len(Recs)
         /\ LET f == Failed(Recs[l]) IN IF f = {} THEN TRUE ELSE PrintT(<<"BAD", l, f>>)
         /\ IF l = Len(Recs) THEN PrintT(<<"CONSUMED", l>>) ELSE TRUE
         /\ l' = l + 1
=============================================================================
