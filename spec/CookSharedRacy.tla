---------------------------- MODULE CookSharedRacy ----------------------------
(* A deliberately broken sibling of CookShared: a check-then-set cache keyed by  *)
(* nothing (the "last result" is reused if a flag says it is fresh).  TLC must    *)
(* find the Deterministic violation: this guards the model against vacuity.      *)
EXTENDS Naturals, Sequences, FiniteSets, TLC
CONSTANTS Threads, Inputs, MaxCalls
VARIABLES pc, cur, cache, hist
vars == <<pc, cur, cache, hist>>
F(i) == <<"result of", i>>
Init == pc = [t \in Threads |-> "idle"] /\ cur = [t \in Threads |-> "-"] /\ cache = [valid |-> FALSE, val |-> <<>>] /\ hist = <<>>
Begin(t, i) == pc[t] = "idle" /\ Len(hist) < MaxCalls /\ pc' = [pc EXCEPT ![t] = "checked"] /\ cur' = [cur EXCEPT ![t] = i] /\ UNCHANGED <<cache, hist>>
\* check ... then set: two steps, so another thread can slip in between
Compute(t) == pc[t] = "checked" /\ cache' = [valid |-> TRUE, val |-> F(cur[t])] /\ pc' = [pc EXCEPT ![t] = "set"] /\ UNCHANGED <<cur, hist>>
End(t) == pc[t] = "set" /\ hist' = Append(hist, [t |-> t, input |-> cur[t], result |-> cache.val])
          /\ pc' = [pc EXCEPT ![t] = "idle"] /\ UNCHANGED <<cur, cache>>
Next == \E t \in Threads : (\E i \in Inputs : Begin(t, i)) \/ Compute(t) \/ End(t)
Deterministic == \A k \in DOMAIN hist : hist[k].result = F(hist[k].input)
=============================================================================
