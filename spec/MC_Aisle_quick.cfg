CONSTANTS
  MaxLen = 4
  PoolLines = 3
  Inputs = {}
INIT MCInit
NEXT MCNext
INVARIANTS TypeOK InvNoDup InvTrimmed InvLookup InvSpans InvRoundTrip InvFunctional NoStuck Emit
CHECK_DEADLOCK FALSE
