------------------------------- MODULE CookDoc -------------------------------
(***************************************************************************)
(* The documented Cooklang language as a GENERATOR (M2+M3 seen from the    *)
(* outside): a behaviour writes a recipe block by block and item by item.  *)
(* Each writing action does two things at once:                            *)
(*   - it appends the documented SPELLING of the construct to `text`       *)
(*     (chunks; optional blanks, braces/single-word form, `%` or advanced  *)
(*     unit form, wraps, comments, CRLF, `>>` or front matter ... chosen   *)
(*     nondeterministically), and                                          *)
(*   - it feeds the corresponding abstract event(s) to CookAnalysis, so    *)
(*     that at Finish the state holds the model and the diagnostics the    *)
(*     specification predicts for that text.                               *)
(* This is the printer C01 speaks about, the source of well-formed and     *)
(* defective documents for C02, C06, C07, C08, C10, C15, C17, C19.         *)
(***************************************************************************)
EXTENDS CookAnalysis, Json

CONSTANTS Mode,        \* "bfs": every choice enumerated (small pools, canonical spelling); "sim": random choice
          Kernel,      \* which pools / actions are enabled: "ref" | "struct" | "switch" | "full"
          MaxBlocks, MaxItems, MaxComps

VARIABLES text,        \* sequence of chunks: the source written so far
          a,           \* CookAnalysis state
          w            \* writer state
docvars == <<text, a, w>>

Has(e) == e \in Ext
\* random choice in simulation mode; the argument is made state dependent so that TLC does not cache the draw
R(S) == RandomElement(IF Len(text) >= 0 THEN S ELSE {})
Pick(S) == IF Mode = "sim" THEN {R(S)} ELSE S

(* ---- pools ------------------------------------------------------------------------------ *)
Names == CASE Kernel \in {"ref", "cw"} -> {"a", "A", "b"}
           [] Kernel \in {"struct", "switch"} -> {"a", "b"}
           [] OTHER -> {"a", "A", "b", "salt", "Salt", "olive oil", "crE2me", "E4"}
SingleWord(n) == n \notin {"olive oil", "frying pan"}
NameChunks(n) == CASE n = "crE2me" -> <<"cr", "E2", "me">> [] OTHER -> <<n>>
ModSets == IF ~Has("MODIFIERS") THEN {{}}
           ELSE CASE Kernel \in {"ref", "cw"} -> {{}, {"ref"}, {"new"}, {"hidden"}, {"opt"}, {"ref", "opt"}, {"ref", "new"}}
                  [] Kernel \in {"struct", "switch"} -> {{}, {"ref"}}
                  [] OTHER -> {{}, {}, {}, {"ref"}, {"ref"}, {"new"}, {"hidden"}, {"opt"}, {"recipe"}, {"ref", "opt"}, {"ref", "hidden"},
                               {"hidden", "opt"}, {"ref", "new"}}
ModChar(m) == CASE m = "ref" -> "&" [] m = "new" -> "+" [] m = "hidden" -> "-" [] m = "opt" -> "?" [] m = "recipe" -> "@"
ModOrder == <<"recipe", "ref", "opt", "new", "hidden">>
ModChunks(ms, rev) == LET o == IF rev THEN <<"hidden", "new", "opt", "ref", "recipe">> ELSE ModOrder
                      IN [i \in DOMAIN SelectSeq(o, LAMBDA m : m \in ms) |-> ModChar(SelectSeq(o, LAMBDA m : m \in ms)[i])]
Num(s) == [t |-> "num", s |-> s]
Frac(wh, n, d) == [t |-> "frac", w |-> wh, n |-> n, d |-> d]
Rng(x, y) == [t |-> "range", a |-> x, b |-> y]
Txt(s) == [t |-> "text", s |-> s]
Values == CASE Kernel \in {"ref", "cw", "struct", "switch"} -> {Num("2")}
            [] OTHER -> {Num("2"), Num("1.5"), Num("250"), Frac(0, 1, 2), Frac(1, 3, 4), Txt("some"), Txt("a pinch"),
                         Rng(Num("2"), Num("3")), Rng(Num("1.5"), Frac(0, 7, 2))}
Units == IF Kernel = "full" THEN {"", "", "g", "kg", "ml", "cups", "tsp", "bag", "min"} ELSE {""}
TimeUnits == {"min", "h", "minutes", "s"}
Aliases == IF Has("ALIAS") /\ Kernel = "full" THEN {"", "", "oil"} ELSE {""}
Notes == IF Kernel = "full" THEN {"", "", "finely chopped"} ELSE {""}
Words == IF Kernel = "full" THEN {"Mix", "the", "and", "well", "crE2me", "a\\@b", "50%", "E4"} ELSE {"mix"}
WordChunks(x) == CASE x = "crE2me" -> <<"cr", "E2", "me">> [] x = "a\\@b" -> <<"a", "BS", "@b">> [] OTHER -> <<x>>
WordText(x)   == CASE x = "a\\@b" -> "a@b" [] OTHER -> x
Inlines == {[n |-> "180", u |-> "C"], [n |-> "5", u |-> "min"], [n |-> "2", u |-> "bags"]}
MetaPool == {[k |-> "title", v |-> "Soup"], [k |-> "servings", v |-> "2"], [k |-> "servings", v |-> "2|4"],
             [k |-> "k", v |-> "v w"], [k |-> "source", v |-> "book"], [k |-> "servings", v |-> "3 cups"]}
SectionNames == IF Kernel = "full" THEN {"", "Prep", "Main part"} ELSE {"", "S"}

(* ---- spelling parameters -------------------------------------------------------------------- *)
Canon == [pad |-> "", ws |-> "", fs |-> "", rs |-> "", adv |-> FALSE, braces |-> FALSE, rev |-> FALSE, sep |-> 1, key |-> 1, sec |-> 1, gap |-> 1]
Spellings == [pad : {"", " "}, ws : {"", " "}, fs : {"", " "}, rs : {"", " "}, adv : BOOLEAN, braces : BOOLEAN, rev : BOOLEAN,
              sep : 1..5, key : 1..3, sec : 1..3, gap : 1..3]
SpSet == IF Mode = "sim"
         THEN {[pad |-> R({"", " "}), ws |-> R({"", " "}), fs |-> R({"", " "}), rs |-> R({"", " "}), adv |-> R(BOOLEAN), braces |-> R(BOOLEAN),
                rev |-> R(BOOLEAN), sep |-> R(1..5), key |-> R(1..3), sec |-> R(1..3), gap |-> R(1..3)]}
         ELSE {Canon}
NL == IF w.crlf THEN <<"CR", "LF">> ELSE <<"LF">>

IntStr(n) == ToString(n)
NumChunks(v) == IF v.t = "num" THEN <<v.s>>
                ELSE IF v.w = 0 THEN <<IntStr(v.n), "/", IntStr(v.d)>> ELSE <<IntStr(v.w), " ", IntStr(v.n), "/", IntStr(v.d)>>
NumChunksSp(v, sp) == IF v.t = "num" THEN <<v.s>>
                      ELSE IF v.w = 0 THEN <<IntStr(v.n), sp.fs, "/", sp.fs, IntStr(v.d)>>
                      ELSE <<IntStr(v.w), " ", IntStr(v.n), sp.fs, "/", sp.fs, IntStr(v.d)>>
ValChunks(v, sp) == CASE v.t \in {"num", "frac"} -> NumChunksSp(v, sp)
                      [] v.t = "range" -> NumChunksSp(v.a, sp) \o <<sp.rs, "-", sp.rs>> \o NumChunksSp(v.b, sp)
                      [] v.t = "text" -> <<v.s>>
\* what a value written like this READS as: without RANGE a range is a text value (only generated compactly then)
RECURSIVE Flat(_, _)
Flat(cs, i) == IF i > Len(cs) THEN "" ELSE cs[i] \o Flat(cs, i + 1)
ReadVal(v) == IF v.t = "range" /\ ~Has("RANGE") THEN Txt(Flat(ValChunks(v, Canon), 1)) ELSE v
CanAdv(q) == Has("ADVANCED_UNITS") /\ q.v.t # "text" /\ q.unit # ""
\* quantity between braces
QtyChunks(q, sp0) ==
  LET sp == IF q.v.t = "range" /\ ~Has("RANGE") THEN [sp0 EXCEPT !.rs = "", !.fs = ""] ELSE sp0 IN
     <<sp.pad>> \o (IF q.lock THEN <<"=", sp.ws>> ELSE <<>>) \o ValChunks(q.v, sp)
  \o (IF q.unit = "" THEN <<>> ELSE IF sp.adv /\ CanAdv(q) THEN <<" ", q.unit>> ELSE <<sp.ws, "%", sp.ws, q.unit>>)
  \o <<sp.pad>>
\* how the quantity reads: a unit after a blank instead of `%` is part of a text value unless ADVANCED_UNITS
ReadQty(q) == IF q = NoQ THEN NoQ ELSE [v |-> ReadVal(q.v), unit |-> q.unit, lock |-> q.lock]

InterChunks(it) == IF it = NoInter THEN <<>>
                   ELSE <<"(">> \o (IF it.kind = "section" THEN <<"=">> ELSE <<>>) \o (IF it.mode = "relative" THEN <<"~">> ELSE <<>>)
                        \o <<IntStr(it.val), ")">>
Marker(kind) == CASE kind = "igr" -> "@" [] kind = "cw" -> "#" [] kind = "tm" -> "~"
\* component: [name, alias, mods, inter, q, note]; braces form unless the single-word form is legal and chosen
NeedsBraces(c) == ~SingleWord(c.name) \/ c.name = "" \/ c.alias # "" \/ c.q # NoQ
CompChunks(kind, c, sp) ==
     <<Marker(kind)>> \o ModChunks(c.mods \ (IF c.inter # NoInter THEN {"ref"} ELSE {}), sp.rev)
  \o (IF c.inter # NoInter THEN <<"&">> \o InterChunks(c.inter) ELSE <<>>)
  \o (IF c.name = "" THEN <<>> ELSE NameChunks(c.name)) \o (IF c.alias # "" THEN <<"|", c.alias>> ELSE <<>>)
  \o (IF NeedsBraces(c) \/ sp.braces THEN <<"{">> \o (IF c.q = NoQ THEN <<sp.pad>> ELSE QtyChunks(c.q, sp)) \o <<"}">> ELSE <<>>)
  \o (IF c.note # "" THEN <<"(", c.note, ")">> ELSE <<>>)

(* ---- writer state ------------------------------------------------------------------------------ *)
W0 == [phase |-> "top", nb |-> 0, ni |-> 0, nc |-> 0, run |-> <<>>, prev |-> "none", crlf |-> FALSE, fm |-> FALSE,
       wellformed |-> TRUE, uses |-> {}, last |-> "none"]
Init == text = <<>> /\ a = A0 /\ w = W0
InitCRLF == text = <<>> /\ a = A0 /\ w \in {W0, [W0 EXCEPT !.crlf = TRUE]}

\* separator before a block: a blank (or comment-only) line is needed between two multi-line blocks
BlockGap(kind, sp) == IF w.prev = "none" THEN <<>>
                      ELSE IF w.prev \in {"step", "text"} /\ kind \in {"step", "text"}
                           THEN (CASE sp.gap = 1 -> NL [] sp.gap = 2 -> NL \o NL [] sp.gap = 3 -> <<"-- note">> \o NL)
                      ELSE (CASE sp.gap = 1 -> NL [] sp.gap = 2 -> <<>> [] sp.gap = 3 -> <<"  ">> \o NL)
Top == w.phase = "top" /\ w.nb < MaxBlocks

AddMeta == /\ Top /\ a.oldStyle /\ Kernel = "full"
           /\ \E m \in Pick(MetaPool), sp \in SpSet :
                /\ text' = text \o BlockGap("meta", sp)
                             \o (CASE sp.key = 1 -> <<">> ", m.k, ": ", m.v>> [] sp.key = 2 -> <<">>", m.k, ":", m.v>>
                                   [] sp.key = 3 -> <<">>  ", m.k, " :  ", m.v, "  ">>) \o NL
                /\ a' = AMeta(a, m.k, m.v)
                /\ w' = [w EXCEPT !.nb = @ + 1, !.prev = "meta"]
ModeValues == {[k |-> "[mode]", v |-> "all"], [k |-> "[mode]", v |-> "components"], [k |-> "[mode]", v |-> "steps"],
               [k |-> "[define]", v |-> "ingredients"], [k |-> "[duplicate]", v |-> "ref"], [k |-> "[duplicate]", v |-> "new"],
               [k |-> "[duplicate]", v |-> "reference"], [k |-> "[mode]", v |-> "default"]}
ModeSwitch == /\ Top /\ Has("MODES") /\ Kernel \in {"full", "switch", "ref", "cw"}
              /\ (Kernel \in {"ref", "cw"} => w.nb = 0)
              /\ \E m \in Pick(ModeValues \cup (IF Kernel = "full" THEN {[k |-> "[mode]", v |-> "text"]} ELSE {})), sp \in SpSet :
                   /\ text' = text \o BlockGap("meta", sp) \o <<">> ", m.k, ": ", m.v>> \o NL
                   /\ a' = AMeta(a, m.k, m.v)
                   /\ w' = [w EXCEPT !.nb = @ + 1, !.prev = "meta", !.uses = @ \cup {"MODES"}]
\* YAML front matter: only as the very first thing; the metadata is then a typed mapping (strings here)
FrontMatter == /\ Top /\ w.nb = 0 /\ text = <<>> /\ Kernel = "full"
               /\ \E m1 \in Pick(MetaPool), m2 \in Pick(MetaPool), sp \in SpSet :
                    /\ m1.k # m2.k
                    /\ text' = <<"---">> \o NL \o <<m1.k, ": ", "QUOTE", m1.v, "QUOTE">> \o NL \o <<m2.k, ": ", "QUOTE", m2.v, "QUOTE">> \o NL \o <<"---">> \o NL
                    /\ a' = AFrontMatter(a, <<m1, m2>>, TRUE)
                    /\ w' = [w EXCEPT !.nb = @ + 1, !.prev = "meta", !.fm = TRUE]
AddSection == /\ Top /\ Kernel \in {"full", "struct"}
              /\ \E n \in Pick(SectionNames), sp \in SpSet :
                   /\ text' = text \o BlockGap("section", sp)
                                \o (CASE sp.sec = 1 -> <<"= ", n>> [] sp.sec = 2 -> <<"== ", n, " ==">> [] sp.sec = 3 -> <<"=", n, "=  ">>) \o NL
                   /\ a' = ASection(a, n)
                   /\ w' = [w EXCEPT !.nb = @ + 1, !.prev = "section"]
AddTextBlock == /\ Top /\ Kernel \in {"full", "struct"}
                /\ \E x \in Pick(Words \ {"50%"}), y \in Pick(Words \ {"50%"}), sp \in SpSet :
                     /\ text' = text \o BlockGap("text", sp) \o <<"> ">> \o WordChunks(x)
                                  \o (CASE sp.sep \in {1, 2} -> <<" ">> [] sp.sep = 3 -> NL [] sp.sep \in {4, 5} -> NL \o <<"> ">>) \o WordChunks(y) \o NL
                     /\ a' = AEnd(AText(AStart(a, "text"), <<[t |-> "s", v |-> WordText(x) \o " " \o WordText(y)]>>, TRUE))
                     /\ w' = [w EXCEPT !.nb = @ + 1, !.prev = "text"]

(* ---- steps ---------------------------------------------------------------------------------------- *)
BeginStep == /\ Top
             /\ \E sp \in SpSet : text' = text \o BlockGap("step", sp)
             /\ a' = AStart(a, "step")
             /\ w' = [w EXCEPT !.phase = "step", !.nb = @ + 1, !.ni = 0, !.run = <<>>, !.prev = "step", !.last = "none"]
\* separator between two items of a step: all of these read as one blank
ItemSep(sp) == IF w.ni = 0 THEN <<>>
               ELSE CASE sp.sep \in {1, 2} -> <<" ">> [] sp.sep = 3 -> NL [] sp.sep = 4 -> <<" [- c -] ">> [] sp.sep = 5 -> <<" -- c">> \o NL
InStep == w.phase = "step" /\ w.ni < MaxItems
SepPiece == IF w.ni = 0 THEN <<>> ELSE <<[t |-> "s", v |-> " "]>>
AddWord == /\ InStep /\ Kernel \in {"full", "struct"}
           /\ \E x \in Pick(Words), sp \in SpSet :
                /\ text' = text \o ItemSep(sp) \o WordChunks(x)
                /\ w' = [w EXCEPT !.ni = @ + 1, !.run = @ \o SepPiece \o <<[t |-> "s", v |-> WordText(x)]>>, !.last = "word"]
           /\ UNCHANGED a
\* a number-plus-unit phrase in the text; it must be followed by a blank or the end of the step
AddInline == /\ InStep /\ Kernel = "full" /\ w.last # "inline"
             /\ \E q \in Pick(Inlines), sp \in SpSet :
                  /\ text' = text \o ItemSep(sp) \o <<q.n, " ", IF q.u = "C" THEN "DEG" ELSE "", q.u>>
                  /\ w' = [w EXCEPT !.ni = @ + 1, !.last = "inline", !.uses = @ \cup {"INLINE"},
                                    !.run = @ \o SepPiece \o <<[t |-> "q", n |-> q.n, u |-> IF q.u = "C" THEN "DEGC" ELSE q.u,
                                                                raw |-> q.n \o " " \o (IF q.u = "C" THEN "DEGC" ELSE q.u)]>>]
             /\ UNCHANGED a
RunAlnum == \E i \in DOMAIN w.run : w.run[i].t = "q" \/ w.run[i].v # " "
Flush(s, trailing) == IF w.run = <<>> /\ ~trailing THEN s
                      ELSE IF w.run = <<>> /\ w.ni = 0 THEN s
                      ELSE AText(s, w.run \o (IF trailing THEN <<[t |-> "s", v |-> " "]>> ELSE <<>>), RunAlnum)
Inters == {[mode |-> "relative", kind |-> "step", val |-> 1], [mode |-> "number", kind |-> "step", val |-> 1],
           [mode |-> "number", kind |-> "step", val |-> 2], [mode |-> "relative", kind |-> "step", val |-> 2],
           [mode |-> "number", kind |-> "section", val |-> 1], [mode |-> "relative", kind |-> "section", val |-> 1],
           [mode |-> "relative", kind |-> "section", val |-> 2], [mode |-> "number", kind |-> "step", val |-> 0]}
Quantities == {NoQ} \cup { [v |-> v, unit |-> u, lock |-> l] : v \in Values, u \in Units, l \in (IF Kernel = "full" THEN {FALSE, FALSE, FALSE, TRUE} ELSE {FALSE}) }
PickQty == IF Mode = "sim"
           THEN {IF R(1..3) = 1 THEN NoQ ELSE [v |-> R(Values), unit |-> R(Units), lock |-> R(1..5) = 1]}
           ELSE Quantities
WriteComp(kind, c, sp) ==
  LET chunks == CompChunks(kind, c, sp)
      readc  == [c EXCEPT !.q = ReadQty(c.q)]
  IN /\ text' = text \o ItemSep(sp) \o chunks
     /\ a' = AComponent(Flush(a, w.ni > 0), kind, readc, Flat(chunks, 1))
     /\ w' = [w EXCEPT !.ni = @ + 1, !.nc = @ + 1, !.run = <<>>, !.last = "comp"]
AddIngredient == /\ InStep /\ w.nc < MaxComps /\ Kernel # "cw"
                 /\ \E n \in Pick(Names), ms \in Pick(ModSets), al \in Pick(Aliases), q \in PickQty, nt \in Pick(Notes), sp \in SpSet :
                      WriteComp("igr", [name |-> n, alias |-> al, mods |-> ms, inter |-> NoInter, q |-> q, note |-> nt], sp)
AddInterRef == /\ InStep /\ w.nc < MaxComps /\ Has("INTERMEDIATE") /\ Kernel \in {"full", "struct"}
               /\ \E n \in Pick(IF Kernel = "full" THEN {"a", "b"} ELSE {"x"}), it \in Pick(Inters),
                     ms \in Pick(IF Kernel = "full" THEN {{"ref"}, {"ref"}, {"ref", "opt"}} ELSE {{"ref"}}), sp \in SpSet :
                    WriteComp("igr", [name |-> n, alias |-> "", mods |-> ms, inter |-> it, q |-> NoQ, note |-> ""], [sp EXCEPT !.braces = TRUE])
CwQuantities == {NoQ, [v |-> Num("2"), unit |-> "", lock |-> FALSE], [v |-> Txt("some"), unit |-> "", lock |-> FALSE]}
AddCookware == /\ InStep /\ w.nc < MaxComps /\ Kernel \in {"full", "cw"}
               /\ \E n \in Pick(IF Kernel = "full" THEN {"pan", "Pan", "frying pan"} ELSE {"a", "A", "b"}), ms \in Pick(ModSets \ {{"recipe"}}),
                     q \in Pick(IF Kernel = "full" THEN CwQuantities ELSE {NoQ, [v |-> Num("2"), unit |-> "", lock |-> FALSE]}), nt \in Pick(Notes), sp \in SpSet :
                    WriteComp("cw", [name |-> n, alias |-> "", mods |-> ms, inter |-> NoInter, q |-> q, note |-> nt], sp)
AddTimer == /\ InStep /\ w.nc < MaxComps /\ Kernel = "full"
            /\ \E n \in Pick({"", "rest"}), v \in Pick({Num("5"), Num("1.5"), Frac(0, 1, 2)}), u \in Pick(TimeUnits), noq \in Pick({FALSE, FALSE, TRUE}), sp \in SpSet :
                 /\ (noq => n # "" /\ ~Has("TIMER_REQ"))
                 /\ WriteComp("tm", [name |-> n, alias |-> "", mods |-> {}, inter |-> NoInter,
                                     q |-> IF noq THEN NoQ ELSE [v |-> v, unit |-> u, lock |-> FALSE], note |-> ""], sp)
EndStep == /\ w.phase = "step" /\ w.ni > 0
           /\ text' = text \o NL
           /\ a' = AEnd(Flush(a, FALSE))
           /\ w' = [w EXCEPT !.phase = "top", !.run = <<>>]
Finish == /\ w.phase = "top" /\ w.nb > 0
          /\ a' = AFinish(a) /\ w' = [w EXCEPT !.phase = "done"] /\ UNCHANGED text
Next == AddMeta \/ ModeSwitch \/ FrontMatter \/ AddSection \/ AddTextBlock \/ BeginStep \/ AddWord \/ AddInline
        \/ AddIngredient \/ AddInterRef \/ AddCookware \/ AddTimer \/ EndStep \/ Finish
Done == w.phase = "done"

(* ---- what the specification predicts for the finished document ------------------------------------- *)
DiagClasses == [i \in DOMAIN a.diags |-> a.diags[i]]
OnlyDeprecation == \A i \in DOMAIN a.diags : a.diags[i].class = "DeprecatedMetadata"
Prediction == [model |-> ModelOf(a), valid |-> Valid(a), diags |-> a.diags, wellformed |-> OnlyDeprecation, failed |-> a.failed]
Emit == Done => PrintT(<<"REPLAY", ToJson([text |-> text, ext |-> Ext, conv |-> Conv, pred |-> Prediction])>>)

(* ---- C06 / C07 at model level: invariants of every reachable analysis state ------------------------------ *)
InvConsistent == Done => Consistent(ModelOf(a))
InvValidRefs  == (Done /\ Valid(a)) => ValidRefIffModifier(ModelOf(a)) /\ ValidSameFoldedName(ModelOf(a), Fold)
InvValidity   == Valid(a) <=> (~a.failed /\ \A i \in DOMAIN a.diags : a.diags[i].sev # "error")
=============================================================================
