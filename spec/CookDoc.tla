------------------------------- MODULE CookDoc -------------------------------
(***************************************************************************)
(* The documented Cooklang language as a GENERATOR (M2+M3 seen from the    *)
(* outside): a behaviour writes a recipe block by block and item by item.  *)
(* Each writing action does two things at once:                            *)
(*   - it appends the documented SPELLING of the construct to `text`       *)
(*     (chunks; optional blanks, braces/single-word form, `%` or advanced  *)
(*     unit form, wraps, comments, CRLF, `>>` or front matter ... chosen   *)
(*     nondeterministically), and                                          *)
(*   - it feeds the corresponding abstract event(s) to CookAnalysis, so    *)
(*     that at Finish the state holds the model and the diagnostics the    *)
(*     specification predicts for that text.                               *)
(* This is the printer C01 speaks about, the source of well-formed and     *)
(* defective documents for C02, C06, C07, C08, C10, C15, C17, C19.         *)
(***************************************************************************)
EXTENDS CookAnalysis, Json

CONSTANTS Variants,    \* TRUE: every finished document is also printed in its C17 variants
          Syntax,      \* extensions whose SYNTAX may be written (= Ext normally; C02 writes syntax the parser has off)
          Defects,     \* TRUE: the C07 defect actions are enabled (at most one defect per document)
          Mode,        \* "bfs": every choice enumerated (small pools, canonical spelling); "sim": random choice
          Kernel,      \* which pools / actions are enabled: "ref" | "struct" | "switch" | "full"
          MaxBlocks, MaxItems, MaxComps

VARIABLES text,        \* sequence of chunks: the source written so far
          a,           \* CookAnalysis state
          w            \* writer state
docvars == <<text, a, w>>

Has(e) == e \in Ext        \* the parser has the extension on: decides how a spelling READS
Syn(e) == e \in Syntax     \* the writer may use the extension's syntax: decides what is WRITTEN
\* random choice in simulation mode; the argument is made state dependent so that TLC does not cache the draw
R(S) == RandomElement(IF Len(text) >= 0 THEN S ELSE {})
Pick(S) == IF Mode = "sim" THEN {R(S)} ELSE S

(* ---- pools ------------------------------------------------------------------------------ *)
Names == CASE Kernel \in {"ref", "cw"} -> {"a", "A", "b"}
           [] Kernel = "defect" -> {"a"}
           [] Kernel \in {"struct", "switch"} -> {"a", "b"}
           [] OTHER -> {"a", "A", "b", "salt", "Salt", "olive oil", "crE2me", "crU2me", "E4"}
SingleWord(n) == n \notin {"olive oil", "frying pan"}
\* "NSP" is the blank inside a two-word name: a chunk of its own so that C17 can put a comment or a line break there
NameChunks(n) == CASE n = "crE2me" -> <<"cr", "E2", "me">> [] n = "crU2me" -> <<"cr", "U2", "me">> [] n = "olive oil" -> <<"olive", "NSP", "oil">>
                   [] n = "frying pan" -> <<"frying", "NSP", "pan">> [] OTHER -> <<n>>
ModSets == IF ~Has("MODIFIERS") THEN {{}}
           ELSE CASE Kernel \in {"ref", "cw"} -> {{}, {"ref"}, {"new"}, {"hidden"}, {"opt"}, {"ref", "opt"}, {"ref", "new"}, {"ref", "new", "opt"}}
                  [] Kernel = "defect" -> {{}}
                  [] Kernel \in {"struct", "switch"} -> {{}, {"ref"}}
                  [] OTHER -> {{}, {}, {}, {"ref"}, {"ref"}, {"new"}, {"hidden"}, {"opt"}, {"recipe"}, {"ref", "opt"}, {"ref", "hidden"},
                               {"hidden", "opt"}, {"ref", "new"}, {"ref", "new", "opt"}, {"ref", "new", "hidden"}}
ModChar(m) == CASE m = "ref" -> "&" [] m = "new" -> "+" [] m = "hidden" -> "-" [] m = "opt" -> "?" [] m = "recipe" -> "@"
ModOrder == <<"recipe", "ref", "opt", "new", "hidden">>
ModChunks(ms, rev) == LET o == IF rev THEN <<"hidden", "new", "opt", "ref", "recipe">> ELSE ModOrder
                      IN [i \in DOMAIN SelectSeq(o, LAMBDA m : m \in ms) |-> ModChar(SelectSeq(o, LAMBDA m : m \in ms)[i])]
Num(s) == [t |-> "num", s |-> s]
Frac(wh, n, d) == [t |-> "frac", w |-> wh, n |-> n, d |-> d]
Rng(x, y) == [t |-> "range", a |-> x, b |-> y]
Txt(s) == [t |-> "text", s |-> s]
Values == CASE Kernel \in {"ref", "cw", "struct", "switch", "defect"} -> {Num("2")}
            [] OTHER -> {Num("2"), Num("1.5"), Num("250"), Frac(0, 1, 2), Frac(1, 3, 4), Txt("some"), Txt("a pinch"), Txt("2 large"), Txt("1 1/2 heaped"),
                         Rng(Num("2"), Num("3")), Rng(Num("1.5"), Frac(0, 7, 2))}
Units == IF Kernel = "full" THEN {"", "", "g", "kg", "ml", "cups", "tsp", "bag", "min", "fl oz"} ELSE {""}
\* the blank inside a two-word unit is a mark ("SP") where C17 may put a block comment
UnitChunks(u) == IF u = "fl oz" THEN <<"fl", "SP", "oz">> ELSE <<u>>
TimeUnits == {"min", "h", "minutes", "s"}
\* (an alias may spell the name of another component: references go by name, never by alias)
Aliases == IF Syn("ALIAS") /\ Kernel = "full" THEN {"", "", "oil", "salt"} ELSE {""}
CwAliases == IF Syn("ALIAS") /\ Kernel = "full" THEN {"", "", "", "pan"} ELSE {""}
Notes == IF Kernel = "full" THEN {"", "", "finely chopped"} ELSE {""}
Words == IF Kernel = "full" THEN {"Mix", "the", "and", "well", "crE2me", "a\\@b", "50%", "E4"} ELSE {"mix"}
WordChunks(x) == CASE x = "crE2me" -> <<"cr", "E2", "me">> [] x = "a\\@b" -> <<"a", "BS", "@b">> [] OTHER -> <<x>>
WordText(x)   == CASE x = "a\\@b" -> "a@b" [] OTHER -> x
Inlines == {[n |-> "180", u |-> "C"], [n |-> "-18", u |-> "C"], [n |-> "5", u |-> "min"], [n |-> "2", u |-> "bags"]}
MetaPool == {[k |-> "title", v |-> "Soup"], [k |-> "servings", v |-> "2"], [k |-> "servings", v |-> "2|4"],
             [k |-> "k", v |-> "v w"], [k |-> "source", v |-> "book"], [k |-> "servings", v |-> "3 cups"],
             [k |-> "servings", v |-> "6|2"], [k |-> "servings", v |-> "4 | 2 | 8"],
             \* the other two spellings of the servings key
             [k |-> "serves", v |-> "4"], [k |-> "yield", v |-> "6|2"]}
SectionNames == IF Kernel = "full" THEN {"", "Prep", "Main part"} ELSE {"", "S"}

(* ---- spelling parameters -------------------------------------------------------------------- *)
Canon == [pad |-> "", ws |-> "", fs |-> "", rs |-> "", adv |-> FALSE, braces |-> FALSE, rev |-> FALSE, sep |-> 1, key |-> 1, sec |-> 1, gap |-> 1]
Spellings == [pad : {"", " "}, ws : {"", " "}, fs : {"", " "}, rs : {"", " "}, adv : BOOLEAN, braces : BOOLEAN, rev : BOOLEAN,
              sep : 1..5, key : 1..3, sec : 1..3, gap : 1..3]
SpSet == IF Mode = "sim"
         THEN {[pad |-> R({"", " ", " ", "TAB"}), ws |-> R({"", " ", " ", "TAB"}), fs |-> R({"", " "}), rs |-> R({"", " "}), adv |-> R(BOOLEAN), braces |-> R(BOOLEAN),
                rev |-> R(BOOLEAN), sep |-> R(1..5), key |-> R(1..3), sec |-> R(1..3), gap |-> R(1..3)]}
         ELSE {Canon}
NL == IF w.crlf THEN <<"CR", "LF">> ELSE <<"LF">>

IntStr(n) == ToString(n)
NumChunks(v) == IF v.t = "num" THEN <<v.s>>
                ELSE IF v.w = 0 THEN <<IntStr(v.n), "/", IntStr(v.d)>> ELSE <<IntStr(v.w), " ", IntStr(v.n), "/", IntStr(v.d)>>
NumChunksSp(v, sp) == IF v.t = "num" THEN <<v.s>>
                      ELSE IF v.w = 0 THEN <<IntStr(v.n), sp.fs, "/", sp.fs, IntStr(v.d)>>
                      ELSE <<IntStr(v.w), "SP", IntStr(v.n), sp.fs, "/", sp.fs, IntStr(v.d)>>   \* "SP": a blank C17 may put a block comment at
ValChunks(v, sp) == CASE v.t \in {"num", "frac"} -> NumChunksSp(v, sp)
                      [] v.t = "range" -> NumChunksSp(v.a, sp) \o <<sp.rs, "-", sp.rs>> \o NumChunksSp(v.b, sp)
                      [] v.t = "text" -> <<v.s>>
\* what a value written like this READS as: without RANGE a range is a text value (only generated compactly then)
RECURSIVE Flat(_, _)
Flat(cs, i) == IF i > Len(cs) THEN "" ELSE (IF cs[i] \in {"SP", "NSP", "TAB"} THEN " " ELSE cs[i]) \o Flat(cs, i + 1)
ReadVal(v) == IF v.t = "range" /\ ~Has("RANGE") THEN Txt(Flat(ValChunks(v, Canon), 1)) ELSE v
CanAdv(q) == Syn("ADVANCED_UNITS") /\ q.v.t # "text" /\ q.unit # "" /\ (Has("ADVANCED_UNITS") \/ ~q.lock)
\* quantity between braces
AdvUsed(q, sp) == q # NoQ /\ sp.adv /\ CanAdv(q)
QtyChunks(q, sp0) ==
  LET sp == IF (q.v.t = "range" /\ ~Has("RANGE")) \/ (AdvUsed(q, sp0) /\ ~Has("ADVANCED_UNITS")) THEN [sp0 EXCEPT !.rs = "", !.fs = ""] ELSE sp0 IN
     <<sp.pad>> \o (IF q.lock THEN <<"=", sp.ws>> ELSE <<>>) \o ValChunks(q.v, sp)
  \o (IF q.unit = "" THEN <<>> ELSE IF sp.adv /\ CanAdv(q) THEN <<" ">> \o UnitChunks(q.unit) ELSE <<sp.ws, "%", sp.ws>> \o UnitChunks(q.unit))
  \o <<sp.pad>>
\* how the quantity reads: a unit after a blank instead of `%` is part of a text value unless ADVANCED_UNITS
ReadQty(q) == IF q = NoQ THEN NoQ ELSE [v |-> ReadVal(q.v), unit |-> q.unit, lock |-> q.lock]
\* a text value that starts with a number and has no `%` unit is "number unit" for ADVANCED_UNITS
\* (the scaling lock `=` is read before the split, so it stays on the number)
NumberLed(q) == q # NoQ /\ q.v \in {Txt("2 large"), Txt("1 1/2 heaped")} /\ q.unit = ""
ReadQtySp(q, sp) == IF NumberLed(q) /\ Has("ADVANCED_UNITS")
                    THEN (IF q.v = Txt("2 large") THEN [v |-> Num("2"), unit |-> "large", lock |-> q.lock] ELSE [v |-> Frac(1, 1, 2), unit |-> "heaped", lock |-> q.lock])
                    ELSE IF AdvUsed(q, sp) /\ ~Has("ADVANCED_UNITS")
                    THEN [v |-> Txt(Flat(ValChunks(q.v, Canon), 1) \o " " \o q.unit), unit |-> "", lock |-> q.lock]
                    ELSE ReadQty(q)
\* without ALIAS the `|` and what follows stay in the name
ReadName(c) == IF c.alias # "" /\ ~Has("ALIAS") THEN [c EXCEPT !.name = c.name \o "|" \o c.alias, !.alias = ""] ELSE c
UsesOfComp(kind, c, sp) == (IF c.alias # "" THEN {"ALIAS"} ELSE {}) \cup (IF c.mods # {} THEN {"MODIFIERS"} ELSE {})
                           \cup (IF c.inter # NoInter THEN {"INTERMEDIATE"} ELSE {})
                           \cup (IF c.q # NoQ /\ c.q.v.t = "range" THEN {"RANGE"} ELSE {})
                           \cup (IF AdvUsed(c.q, sp) \/ NumberLed(c.q) THEN {"ADVANCED_UNITS"} ELSE {})
                           \cup (IF kind = "tm" /\ c.q = NoQ THEN {"TIMER_REQ"} ELSE {})
                           \cup (IF kind = "tm" THEN {"TIMER"} ELSE {})

InterChunks(it) == IF it = NoInter THEN <<>>
                   ELSE <<"(">> \o (IF it.kind = "section" THEN <<"=">> ELSE <<>>) \o (IF it.mode = "relative" THEN <<"~">> ELSE <<>>)
                        \o <<IntStr(it.val), ")">>
Marker(kind) == CASE kind = "igr" -> "@" [] kind = "cw" -> "#" [] kind = "tm" -> "~"
\* component: [name, alias, mods, inter, q, note]; braces form unless the single-word form is legal and chosen
NeedsBraces(c) == ~SingleWord(c.name) \/ c.name = "" \/ c.alias # "" \/ c.q # NoQ
CompChunks(kind, c, sp) ==
     <<Marker(kind)>> \o ModChunks(c.mods \ (IF c.inter # NoInter THEN {"ref"} ELSE {}), sp.rev)
  \o (IF c.inter # NoInter THEN <<"&">> \o InterChunks(c.inter) ELSE <<>>)
  \o (IF c.name = "" THEN <<>> ELSE NameChunks(c.name)) \o (IF c.alias # "" THEN <<"|", c.alias>> ELSE <<>>)
  \o (IF NeedsBraces(c) \/ sp.braces THEN <<"{">> \o (IF c.q = NoQ THEN <<sp.pad>> ELSE QtyChunks(c.q, sp)) \o <<"}">> ELSE <<>>)
  \o (IF c.note # "" THEN <<"(", c.note, ")">> ELSE <<>>)

(* ---- byte offsets of what has been written (labels of diagnostics are byte spans) -------------------- *)
ChunkBytes(c) == CASE c \in {"LF", "CR", "BS", "QUOTE", "TAB", "SP", "NSP"} -> 1 [] c = "GAP" -> 0 [] c \in {"E2", "U2", "DEG", "NBSP"} -> 2 [] c = "E4" -> 4 [] OTHER -> Len(c)
RECURSIVE BytesOf(_, _)
BytesOf(cs, i) == IF i > Len(cs) THEN 0 ELSE ChunkBytes(cs[i]) + BytesOf(cs, i + 1)
NoDefect == [class |-> "", sev |-> "", stage |-> "", s |-> 0, e |-> 0]

(* ---- writer state ------------------------------------------------------------------------------ *)
W0 == [phase |-> "top", nb |-> 0, ni |-> 0, nc |-> 0, run |-> <<>>, prev |-> "none", crlf |-> FALSE, fm |-> FALSE,
       wellformed |-> TRUE, uses |-> {}, last |-> "none", defect |-> NoDefect]
Init == text = <<>> /\ a = A0 /\ w = W0
InitCRLF == text = <<>> /\ a = A0 /\ w \in {W0, [W0 EXCEPT !.crlf = TRUE]}

\* separator before a block: a blank (or comment-only) line is needed between two multi-line blocks
\* "GAP" is a zero-width chunk marking the start of a block (where C17 may add blank or comment-only lines)
BlockGap(kind, sp) == IF w.prev = "none" THEN <<>>
                      ELSE <<"GAP">> \o
                           (IF w.prev \in {"step", "text"} /\ kind \in {"step", "text"}
                            THEN (CASE sp.gap = 1 -> NL [] sp.gap = 2 -> NL \o NL [] sp.gap = 3 -> <<"-- note">> \o NL)
                            ELSE (CASE sp.gap = 1 -> NL [] sp.gap = 2 -> <<>> [] sp.gap = 3 -> <<"  ">> \o NL))
Top == w.phase = "top" /\ w.nb < MaxBlocks

AddMeta == /\ Top /\ a.oldStyle /\ Kernel = "full"
           /\ \E m \in Pick(MetaPool), sp \in SpSet :
                /\ text' = text \o BlockGap("meta", sp)
                             \o (CASE sp.key = 1 -> <<">> ", m.k, ": ", m.v>> [] sp.key = 2 -> <<">>", m.k, ":", m.v>>
                                   [] sp.key = 3 -> <<">>  ", m.k, " :  ", m.v, "  ">>) \o NL
                /\ a' = AMeta(a, m.k, m.v)
                /\ w' = [w EXCEPT !.nb = @ + 1, !.prev = "meta"]
ModeValues == {[k |-> "[mode]", v |-> "all"], [k |-> "[mode]", v |-> "components"], [k |-> "[mode]", v |-> "steps"],
               [k |-> "[define]", v |-> "ingredients"], [k |-> "[duplicate]", v |-> "ref"], [k |-> "[duplicate]", v |-> "new"],
               [k |-> "[duplicate]", v |-> "reference"], [k |-> "[mode]", v |-> "default"]}
ModeSwitch == /\ Top /\ Syn("MODES") /\ (Has("MODES") \/ a.oldStyle) /\ Kernel \in {"full", "switch", "ref", "cw", "defect"}
              /\ (Kernel \in {"ref", "cw"} => w.nb = 0)
              /\ \E m \in Pick(IF Kernel = "defect" THEN {[k |-> "[mode]", v |-> "all"], [k |-> "[mode]", v |-> "components"]}
                               ELSE ModeValues \cup (IF Kernel = "full" THEN {[k |-> "[mode]", v |-> "text"]} ELSE {})), sp \in SpSet :
                   /\ text' = text \o BlockGap("meta", sp) \o <<">> ", m.k, ": ", m.v>> \o NL
                   /\ a' = AMeta(a, m.k, m.v)
                   /\ w' = [w EXCEPT !.nb = @ + 1, !.prev = "meta", !.uses = @ \cup {"MODES"}]
\* YAML front matter: only as the very first thing; the metadata is then a typed mapping (strings here)
FrontMatter == /\ Top /\ w.nb = 0 /\ text = <<>> /\ Kernel = "full"
               /\ \E m1 \in Pick(MetaPool), m2 \in Pick(MetaPool), sp \in SpSet :
                    /\ m1.k # m2.k
                    /\ text' = <<"---">> \o NL \o <<m1.k, ": ", "QUOTE", m1.v, "QUOTE">> \o NL \o <<m2.k, ": ", "QUOTE", m2.v, "QUOTE">> \o NL \o <<"---">> \o NL
                    /\ a' = AFrontMatter(a, <<m1, m2>>, TRUE)
                    /\ w' = [w EXCEPT !.nb = @ + 1, !.prev = "meta", !.fm = TRUE]
\* the blank inside a two-word section name is a mark ("SP") where C17 may put a block comment
SecChunks(n) == IF n = "Main part" THEN <<"Main", "SP", "part">> ELSE <<n>>
AddSection == /\ Top /\ Kernel \in {"full", "struct"}
              /\ \E n \in Pick(SectionNames), sp \in SpSet :
                   /\ text' = text \o BlockGap("section", sp)
                                \o (CASE sp.sec = 1 -> <<"= ">> \o SecChunks(n) [] sp.sec = 2 -> <<"== ">> \o SecChunks(n) \o <<" ==">>
                                      [] sp.sec = 3 -> <<"=">> \o SecChunks(n) \o <<"=  ">>) \o NL
                   /\ a' = ASection(a, n)
                   /\ w' = [w EXCEPT !.nb = @ + 1, !.prev = "section"]
AddTextBlock == /\ Top /\ Kernel \in {"full", "struct"}
                /\ \E x \in Pick(Words \ {"50%"}), y \in Pick(Words \ {"50%"}), sp \in SpSet :
                     /\ text' = text \o BlockGap("text", sp) \o <<"> ">> \o WordChunks(x)
                                  \o (CASE sp.sep \in {1, 2} -> <<"SP">> [] sp.sep = 3 -> NL [] sp.sep \in {4, 5} -> NL \o <<"> ">>) \o WordChunks(y) \o NL
                     /\ a' = AEnd(AText(AStart(a, "text"), <<[t |-> "s", v |-> WordText(x) \o " " \o WordText(y)]>>, TRUE))
                     /\ w' = [w EXCEPT !.nb = @ + 1, !.prev = "text"]

(* ---- steps ---------------------------------------------------------------------------------------- *)
BeginStep == /\ Top
             /\ \E sp \in SpSet : text' = text \o BlockGap("step", sp)
             /\ a' = AStart(a, "step")
             /\ w' = [w EXCEPT !.phase = "step", !.nb = @ + 1, !.ni = 0, !.run = <<>>, !.prev = "step", !.last = "none"]
\* separator between two items of a step: all of these read as one blank
ItemSep(sp) == IF w.ni = 0 THEN <<>>
               ELSE CASE sp.sep \in {1, 2} -> <<"SP">> [] sp.sep = 3 -> NL [] sp.sep = 4 -> <<" [- c -] ">> [] sp.sep = 5 -> <<" -- c">> \o NL
                    \* "SP" is one blank: a chunk of its own so that C17 knows where a block comment may go
InStep == w.phase = "step" /\ w.ni < MaxItems
SepPiece == IF w.ni = 0 THEN <<>> ELSE <<[t |-> "s", v |-> " "]>>
AddWord == /\ InStep /\ Kernel \in {"full", "struct", "defect"}
           /\ \E x \in Pick(Words), sp \in SpSet :
                /\ text' = text \o ItemSep(sp) \o WordChunks(x)
                /\ w' = [w EXCEPT !.ni = @ + 1, !.run = @ \o SepPiece \o <<[t |-> "s", v |-> WordText(x)]>>, !.last = "word"]
           /\ UNCHANGED a
\* a number-plus-unit phrase in the text; it must be followed by a blank or the end of the step
AddInline == /\ InStep /\ Kernel = "full" /\ w.last # "inline"
             /\ \E q \in Pick(Inlines), sp \in SpSet :
                  /\ text' = text \o ItemSep(sp) \o <<q.n, "SP", IF q.u = "C" THEN "DEG" ELSE "", q.u>>
                  /\ w' = [w EXCEPT !.ni = @ + 1, !.last = "inline", !.uses = @ \cup (IF UnitKindBundled(IF q.u = "C" THEN "DEGC" ELSE q.u) # "unknown" THEN {"INLINE"} ELSE {}),
                                    !.run = @ \o SepPiece \o <<[t |-> "q", n |-> q.n, u |-> IF q.u = "C" THEN "DEGC" ELSE q.u,
                                                                raw |-> q.n \o " " \o (IF q.u = "C" THEN "DEGC" ELSE q.u)]>>]
             /\ UNCHANGED a
\* does the pending text contain a letter or digit (char::is_alphanumeric; the emoji word does not)
RunAlnum == \E i \in DOMAIN w.run : w.run[i].t = "q" \/ w.run[i].v \notin {" ", "E4"}
Flush(s, trailing) == IF w.run = <<>> /\ ~trailing THEN s
                      ELSE IF w.run = <<>> /\ w.ni = 0 THEN s
                      ELSE AText(s, w.run \o (IF trailing THEN <<[t |-> "s", v |-> " "]>> ELSE <<>>), RunAlnum)
Inters == {[mode |-> "relative", kind |-> "step", val |-> 1], [mode |-> "number", kind |-> "step", val |-> 1],
           [mode |-> "number", kind |-> "step", val |-> 2], [mode |-> "relative", kind |-> "step", val |-> 2],
           [mode |-> "number", kind |-> "section", val |-> 1], [mode |-> "relative", kind |-> "section", val |-> 1],
           [mode |-> "relative", kind |-> "section", val |-> 2], [mode |-> "number", kind |-> "step", val |-> 0]}
Quantities == {NoQ} \cup { [v |-> v, unit |-> u, lock |-> l] : v \in Values, u \in Units, l \in (IF Kernel = "full" THEN {FALSE, FALSE, FALSE, TRUE} ELSE {FALSE}) }
PickQty == IF Mode = "sim"
           THEN {IF R(1..3) = 1 THEN NoQ ELSE [v |-> R(Values), unit |-> R(Units), lock |-> R(1..5) = 1]}
           ELSE Quantities
WriteComp(kind, c, sp) ==
  LET chunks == CompChunks(kind, c, sp)
      readc  == ReadName([c EXCEPT !.q = IF c.q = NoQ THEN NoQ ELSE ReadQtySp(c.q, sp)])
  IN /\ text' = text \o ItemSep(sp) \o chunks
     /\ a' = AComponent(Flush(a, w.ni > 0), kind, readc, Flat(chunks, 1))
     /\ w' = [w EXCEPT !.ni = @ + 1, !.nc = @ + 1, !.run = <<>>, !.last = "comp", !.uses = @ \cup UsesOfComp(kind, c, sp)]
AddIngredient == /\ InStep /\ w.nc < MaxComps /\ Kernel # "cw"
                 /\ \E n \in Pick(Names), ms \in Pick(ModSets), al \in Pick(Aliases), q \in PickQty, nt \in Pick(Notes), sp \in SpSet :
                      WriteComp("igr", [name |-> n, alias |-> al, mods |-> ms, inter |-> NoInter, q |-> q, note |-> nt], sp)
AddInterRef == /\ InStep /\ w.nc < MaxComps /\ Syn("INTERMEDIATE") /\ Has("MODIFIERS") /\ Kernel \in {"full", "struct"}
               /\ \E n \in Pick(IF Kernel = "full" THEN {"a", "b"} ELSE {"x"}),
                     \* (read without the extension, a `~` inside the parenthesis is a timer marker: only the documented-free forms)
                     it \in Pick(IF Has("INTERMEDIATE") THEN Inters ELSE {i \in Inters : i.mode = "number"}),
                     ms \in Pick(IF Kernel = "full" THEN {{"ref"}, {"ref"}, {"ref", "opt"}} ELSE {{"ref"}}), sp \in SpSet :
                    IF Has("INTERMEDIATE")
                    THEN WriteComp("igr", [name |-> n, alias |-> "", mods |-> ms, inter |-> it, q |-> NoQ, note |-> ""], [sp EXCEPT !.braces = TRUE])
                    ELSE \* without the extension the parenthesis is part of the name of an ordinary reference
                         LET c == [name |-> n, alias |-> "", mods |-> ms, inter |-> it, q |-> NoQ, note |-> ""]
                             chunks == CompChunks("igr", c, [sp EXCEPT !.braces = TRUE])
                         IN /\ text' = text \o ItemSep(sp) \o chunks
                            /\ a' = AComponent(Flush(a, w.ni > 0), "igr", [c EXCEPT !.name = Flat(InterChunks(it), 1) \o n, !.inter = NoInter], Flat(chunks, 1))
                            /\ w' = [w EXCEPT !.ni = @ + 1, !.nc = @ + 1, !.run = <<>>, !.last = "comp", !.uses = @ \cup {"INTERMEDIATE", "MODIFIERS"}]
CwQuantities == {NoQ, [v |-> Num("2"), unit |-> "", lock |-> FALSE], [v |-> Txt("some"), unit |-> "", lock |-> FALSE]}
AddCookware == /\ InStep /\ w.nc < MaxComps /\ Kernel \in {"full", "cw", "defect"}
               /\ \E n \in Pick(CASE Kernel = "full" -> {"pan", "Pan", "frying pan"} [] Kernel = "defect" -> {"p"} [] OTHER -> {"a", "A", "b"}), ms \in Pick(ModSets \ {{"recipe"}}),
                     q \in Pick(IF Kernel = "full" THEN CwQuantities ELSE {NoQ, [v |-> Num("2"), unit |-> "", lock |-> FALSE]}), nt \in Pick(Notes), al \in Pick(CwAliases), sp \in SpSet :
                    WriteComp("cw", [name |-> n, alias |-> al, mods |-> ms, inter |-> NoInter, q |-> q, note |-> nt], sp)
AddTimer == /\ InStep /\ w.nc < MaxComps /\ Kernel = "full"
            /\ \E n \in Pick({"", "rest"}), v \in Pick({Num("5"), Num("1.5"), Frac(0, 1, 2)}), u \in Pick(TimeUnits), noq \in Pick({FALSE, FALSE, TRUE}), sp \in SpSet :
                 /\ (noq => n # "" /\ ~Has("TIMER_REQ"))
                 \* (a timer whose unit is not recognised as a unit is an error, so the advanced form only where it is read)
                 /\ WriteComp("tm", [name |-> n, alias |-> "", mods |-> {}, inter |-> NoInter,
                                     q |-> IF noq THEN NoQ ELSE [v |-> v, unit |-> u, lock |-> FALSE], note |-> ""],
                              IF Has("ADVANCED_UNITS") THEN sp ELSE [sp EXCEPT !.adv = FALSE])
(* ---- C07: one cataloged invalid construct somewhere in an otherwise generated document -------------------- *)
\* parse-stage defects: [chunks, class, sev, needs]; the parser reports them and no recipe comes out
ParseDefects ==
  { [cs |-> <<"@{}">>, class |-> "EmptyName", sev |-> "error", needs |-> {}],
    [cs |-> <<"#{}">>, class |-> "EmptyName", sev |-> "error", needs |-> {}],
    [cs |-> <<"@|flour{}">>, class |-> "EmptyName", sev |-> "error", needs |-> {"ALIAS"}],      \* (without ALIAS the name is `|flour`)
    [cs |-> <<"#|pan{}">>, class |-> "EmptyName", sev |-> "error", needs |-> {"ALIAS"}],
    [cs |-> <<"@ |wine{1}">>, class |-> "EmptyName", sev |-> "error", needs |-> {"ALIAS"}],
    [cs |-> <<"@a{1/0}">>, class |-> "DivisionByZero", sev |-> "error", needs |-> {}],
    [cs |-> <<"@a{2 1/0%g}">>, class |-> "DivisionByZero", sev |-> "error", needs |-> {}],
    [cs |-> <<"@a{1-3/0%g}">>, class |-> "DivisionByZero", sev |-> "error", needs |-> {"RANGE"}],
    [cs |-> <<"@a{1/0 - 3}">>, class |-> "DivisionByZero", sev |-> "error", needs |-> {"RANGE"}],
    [cs |-> <<"#pan{1-5/0}">>, class |-> "DivisionByZero", sev |-> "error", needs |-> {"RANGE"}],
    [cs |-> <<"~{1-7/0%min}">>, class |-> "DivisionByZero", sev |-> "error", needs |-> {"RANGE"}],
    [cs |-> <<"@a{99999999999/2}">>, class |-> "IntegerOverflow", sev |-> "error", needs |-> {}],
    [cs |-> <<"@a{%g}">>, class |-> "EmptyValue", sev |-> "error", needs |-> {}],
    [cs |-> <<"#pan{ %}">>, class |-> "EmptyValue", sev |-> "error", needs |-> {}],
    [cs |-> <<"#pan{1%kg}">>, class |-> "CookwareUnit", sev |-> "error", needs |-> {}],
    [cs |-> <<"~{5}">>, class |-> "TimerMissingUnit", sev |-> "error", needs |-> {}],
    [cs |-> <<"~rest{1/2}">>, class |-> "TimerMissingUnit", sev |-> "error", needs |-> {}],
    [cs |-> <<"~rest">>, class |-> "TimerMissingQuantity", sev |-> "error", needs |-> {"TIMER_REQ"}],
    [cs |-> <<"~rest{}">>, class |-> "TimerMissingQuantity", sev |-> "error", needs |-> {"TIMER_REQ"}],
    [cs |-> <<"~{}">>, class |-> IF Has("TIMER_REQ") THEN "TimerMissingQuantity" ELSE "TimerEmpty", sev |-> "error", needs |-> {}],
    [cs |-> <<"@&&a">>, class |-> "DuplicateModifier", sev |-> "error", needs |-> {"MODIFIERS"}],
    [cs |-> <<"#-?-pan{}">>, class |-> "DuplicateModifier", sev |-> "error", needs |-> {"MODIFIERS"}],
    [cs |-> <<"#@pan">>, class |-> "CookwareRecipeModifier", sev |-> "error", needs |-> {"MODIFIERS"}],
    [cs |-> <<"~&t{1%min}">>, class |-> "TimerModifiers", sev |-> "error", needs |-> {"MODIFIERS"}],
    [cs |-> <<"@a|b|c{}">>, class |-> "MultipleAliases", sev |-> "error", needs |-> {"ALIAS"}],
    [cs |-> <<"@a|{}">>, class |-> "EmptyAlias", sev |-> "error", needs |-> {"ALIAS"}],
    [cs |-> <<"#pan| {}">>, class |-> "EmptyAlias", sev |-> "error", needs |-> {"ALIAS"}],
    [cs |-> <<"~a|b{1%min}">>, class |-> "TimerAlias", sev |-> "error", needs |-> {"ALIAS"}],
    [cs |-> <<"#&(1)pan{}">>, class |-> "CookwareIntermediate", sev |-> "error", needs |-> {"INTERMEDIATE"}],
    [cs |-> <<"@&(x)a{}">>, class |-> "InterSyntax", sev |-> "error", needs |-> {"INTERMEDIATE"}],
    [cs |-> <<"@&(~=1)a{}">>, class |-> "InterSyntax", sev |-> "error", needs |-> {"INTERMEDIATE"}] }
DefectHere(d, sp, chunks) == LET s0 == BytesOf(text, 1) + BytesOf(ItemSep(sp), 1)
                             IN [class |-> d.class, sev |-> d.sev, stage |-> d.stage, s |-> s0, e |-> s0 + BytesOf(chunks, 1)]
AddParseDefect == /\ InStep /\ w.defect = NoDefect /\ Kernel \in {"full", "defect"}
                  /\ \E d \in Pick({x \in ParseDefects : x.needs \subseteq Ext}), sp \in SpSet :
                       /\ text' = text \o ItemSep(sp) \o d.cs
                       /\ a' = AParseError(Flush(a, w.ni > 0))
                       /\ w' = [w EXCEPT !.ni = @ + 1, !.nc = @ + 1, !.run = <<>>, !.last = "comp",
                                         !.defect = DefectHere([class |-> d.class, sev |-> d.sev, stage |-> "parse"], sp, d.cs)]
\* analysis-stage defects: well-formed syntax the analysis must refuse; the recipe still comes out
AnalysisDefects ==
  { [kind |-> "igr", c |-> [name |-> "zzz", alias |-> "", mods |-> {"ref"}, inter |-> NoInter, q |-> NoQ, note |-> ""], class |-> "RefNotFound", needs |-> {"MODIFIERS"}],
    [kind |-> "cw", c |-> [name |-> "zzz", alias |-> "", mods |-> {"ref"}, inter |-> NoInter, q |-> NoQ, note |-> ""], class |-> "RefNotFound", needs |-> {"MODIFIERS"}],
    [kind |-> "igr", c |-> [name |-> "x", alias |-> "", mods |-> {"ref"}, inter |-> [mode |-> "relative", kind |-> "step", val |-> 9], q |-> NoQ, note |-> ""],
       class |-> "InterOutOfBounds", needs |-> {"INTERMEDIATE"}],
    [kind |-> "igr", c |-> [name |-> "x", alias |-> "", mods |-> {"ref"}, inter |-> [mode |-> "number", kind |-> "section", val |-> 9], q |-> NoQ, note |-> ""],
       class |-> "InterOutOfBounds", needs |-> {"INTERMEDIATE"}],
    [kind |-> "igr", c |-> [name |-> "x", alias |-> "", mods |-> {"ref"}, inter |-> [mode |-> "number", kind |-> "step", val |-> 0], q |-> NoQ, note |-> ""],
       class |-> "InterZero", needs |-> {"INTERMEDIATE"}],
    [kind |-> "igr", c |-> [name |-> "x", alias |-> "", mods |-> {"ref", "hidden"}, inter |-> [mode |-> "relative", kind |-> "step", val |-> 1], q |-> NoQ, note |-> ""],
       class |-> "InterConflictMods", needs |-> {"INTERMEDIATE"}],
    [kind |-> "igr", c |-> [name |-> "a", alias |-> "", mods |-> {"ref", "new"}, inter |-> NoInter, q |-> NoQ, note |-> ""], class |-> "ConflictMods", needs |-> {"MODIFIERS"}],
    [kind |-> "tm", c |-> [name |-> "", alias |-> "", mods |-> {}, inter |-> NoInter, q |-> [v |-> Num("5"), unit |-> "kg", lock |-> FALSE], note |-> ""],
       class |-> IF Conv = "bundled" THEN "TimerNotTime" ELSE "UnknownTimerUnit", needs |-> {"ADVANCED_UNITS"}],
    [kind |-> "tm", c |-> [name |-> "t", alias |-> "", mods |-> {}, inter |-> NoInter, q |-> [v |-> Num("5"), unit |-> "zz", lock |-> FALSE], note |-> ""],
       class |-> "UnknownTimerUnit", needs |-> {"ADVANCED_UNITS"}],
    [kind |-> "tm", c |-> [name |-> "t", alias |-> "", mods |-> {}, inter |-> NoInter, q |-> [v |-> Txt("some"), unit |-> "min", lock |-> FALSE], note |-> ""],
       class |-> "TimerTextValue", needs |-> {"ADVANCED_UNITS"}] }
AddAnalysisDefect == /\ InStep /\ w.defect = NoDefect /\ Kernel \in {"full", "defect"} /\ ~a.blk.text /\ a.defMode # "steps"
                     /\ \E d \in Pick({x \in AnalysisDefects : x.needs \subseteq Ext}), sp0 \in SpSet :
                          LET sp == [sp0 EXCEPT !.braces = TRUE, !.adv = FALSE]
                              chunks == CompChunks(d.kind, d.c, sp)
                          IN /\ text' = text \o ItemSep(sp) \o chunks
                             /\ a' = AComponent(Flush(a, w.ni > 0), d.kind, [d.c EXCEPT !.q = ReadQty(d.c.q)], Flat(chunks, 1))
                             /\ w' = [w EXCEPT !.ni = @ + 1, !.nc = @ + 1, !.run = <<>>, !.last = "comp",
                                               !.defect = DefectHere([class |-> d.class, sev |-> "error", stage |-> "analysis"], sp, chunks)]
\* references that break a rule with respect to an EXISTING definition: a note on a reference, a modifier the
\* definition lacks, a quantity although the definition (made in components mode) already has one
RefDefectKinds == {"note", "mods", "qty"}
Candidates(tbl, which) == {k \in DOMAIN tbl : /\ tbl[k].rel.t = "def" /\ tbl[k].mods = {} /\ tbl[k].alias = ""
                                                /\ LastDef(tbl, tbl[k].name, Len(tbl)) = k /\ SingleWord(tbl[k].name)
                                                /\ (which = "qty" => (tbl[k].q # NoQ /\ ~tbl[k].rel.inStep /\ ~IsTextVal(tbl[k].q.v)))
                                                /\ (which # "qty" => tbl[k].q = NoQ \/ tbl[k].rel.inStep)}
AddRefDefect == /\ InStep /\ w.defect = NoDefect /\ Kernel \in {"full", "defect"} /\ Has("MODIFIERS") /\ ~a.blk.text
                /\ a.defMode = "all" /\ a.dupMode = "new"
                /\ \E kind \in Pick({"igr", "cw"}), which \in Pick(RefDefectKinds), sp0 \in SpSet :
                     LET tbl == IF kind = "igr" THEN a.igr ELSE a.cw IN
                     \E i \in Pick(Candidates(tbl, which) \cup {0}) :
                     /\ i # 0
                     /\ LET sp == [sp0 EXCEPT !.braces = TRUE, !.adv = FALSE]
                            c == [name |-> tbl[i].name, alias |-> "", mods |-> IF which = "mods" THEN {"ref", "hidden"} ELSE {"ref"},
                                  inter |-> NoInter, q |-> IF which = "qty" THEN [v |-> Num("2"), unit |-> "", lock |-> FALSE] ELSE NoQ,
                                  note |-> IF which = "note" THEN "finely chopped" ELSE ""]
                            chunks == CompChunks(kind, c, sp)
                            class == CASE which = "note" -> "NoteOnRef" [] which = "mods" -> "ConflictMods" [] which = "qty" -> "ConflictQty"
                        IN /\ text' = text \o ItemSep(sp) \o chunks
                           /\ a' = AComponent(Flush(a, w.ni > 0), kind, c, Flat(chunks, 1))
                           /\ w' = [w EXCEPT !.ni = @ + 1, !.nc = @ + 1, !.run = <<>>, !.last = "comp",
                                             !.defect = DefectHere([class |-> class, sev |-> "error", stage |-> "analysis"], sp, chunks)]
BadModeValue == /\ Top /\ Has("MODES") /\ w.defect = NoDefect /\ Kernel \in {"full", "defect"}
                /\ \E k \in Pick({"[mode]", "[duplicate]"}), sp \in SpSet :
                     LET gap == BlockGap("meta", sp) line == <<">> ", k, ": ", "banana">> s0 == BytesOf(text, 1) + BytesOf(gap, 1) IN
                     /\ text' = text \o gap \o line \o NL
                     /\ a' = AMeta(a, k, "banana")
                     /\ w' = [w EXCEPT !.nb = @ + 1, !.prev = "meta",
                                       !.defect = [class |-> "BadModeValue", sev |-> "error", stage |-> "analysis", s |-> s0, e |-> s0 + BytesOf(line, 1)]]
BadFrontMatter == /\ Top /\ w.nb = 0 /\ text = <<>> /\ Kernel \in {"full", "defect"}
                  /\ \E y \in Pick({<<"k: [a">>, <<"k: v">> \o NL \o <<" : : x">>, <<"k: ", "QUOTE", "open">>,
                                   \* well-formed YAML that is no mapping, and a mapping with one key twice
                                   <<"- a">> \o NL \o <<"- b">>, <<"just a title">>, <<"42">>, <<"k: v">> \o NL \o <<"k: w">>}) :
                       LET t == <<"---">> \o NL \o y \o NL \o <<"---">> \o NL IN
                       /\ text' = t
                       /\ a' = AFrontMatter(a, <<>>, FALSE)
                       /\ w' = [w EXCEPT !.nb = @ + 1, !.prev = "meta", !.fm = TRUE,
                                         !.defect = [class |-> "BadFrontMatter", sev |-> "error", stage |-> "analysis", s |-> 0, e |-> BytesOf(t, 1)]]

EndStep == /\ w.phase = "step" /\ w.ni > 0
           /\ text' = text \o NL
           /\ a' = AEnd(Flush(a, FALSE))
           /\ w' = [w EXCEPT !.phase = "top", !.run = <<>>]
Finish == /\ w.phase = "top" /\ w.nb > 0
          /\ a' = AFinish(a) /\ w' = [w EXCEPT !.phase = "done"] /\ UNCHANGED text
Next == AddMeta \/ ModeSwitch \/ FrontMatter \/ AddSection \/ AddTextBlock \/ BeginStep \/ AddWord \/ AddInline
        \/ AddIngredient \/ AddInterRef \/ AddCookware \/ AddTimer \/ EndStep \/ Finish
        \/ (Defects /\ (AddParseDefect \/ AddAnalysisDefect \/ AddRefDefect \/ BadModeValue \/ BadFrontMatter))
Done == w.phase = "done"

(* ---- C17: the same document with other line endings, comments and blank space ---------------------------------------- *)
\* index of the first chunk of the Cooklang part (after a front matter, whose lines are YAML, not Cooklang)
RECURSIVE FenceEnd(_, _)
FenceEnd(t, i) == IF i > Len(t) THEN Len(t) + 1 ELSE IF t[i] = "---" /\ i > 1 THEN i + 2 ELSE FenceEnd(t, i + 1)   \* past the LF of the closing fence
CookStart == IF w.fm THEN FenceEnd(text, 2) ELSE 1
RECURSIVE Subst(_, _, _, _, _)
\* replaces chunk `c` by `by` at its k-th, (k+step)-th ... occurrence at or after index `from`; chunks before are kept
Subst(t, i, c, by, st) ==   \* st: [from, k, step, n] n = occurrences seen so far
  IF i > Len(t) THEN <<>>
  ELSE IF t[i] = c /\ i >= st.from
       THEN (IF (st.n % st.step) = st.k THEN by ELSE <<t[i]>>) \o Subst(t, i + 1, c, by, [st EXCEPT !.n = @ + 1])
       ELSE <<t[i]>> \o Subst(t, i + 1, c, by, st)
Every(from) == [from |-> from, k |-> 0, step |-> 1, n |-> 0]
Odd(from)   == [from |-> from, k |-> 1, step |-> 2, n |-> 0]
VariantTexts ==
  [crlf       |-> Subst(text, 1, "LF", <<"CR", "LF">>, Every(1)),
   comment    |-> Subst(text, 1, "LF", <<" -- x", "LF">>, Every(CookStart)),
   commentodd |-> Subst(text, 1, "LF", <<"  -- y z", "LF">>, Odd(CookStart)),
   spaces     |-> Subst(text, 1, "LF", <<"  ", "LF">>, Every(CookStart)),
   tabs       |-> Subst(text, 1, "LF", <<"TAB", "LF">>, Odd(CookStart)),
   block      |-> Subst(text, 1, "SP", <<" [- x -] ">>, Every(1)),
   blockodd   |-> Subst(text, 1, "SP", <<"SP", "[- x y -]">>, Odd(1)),
   blank      |-> Subst(text, 1, "GAP", <<"LF">>, Every(1)),
   blankodd   |-> Subst(text, 1, "GAP", <<"  ", "LF", "LF">>, Odd(1)),
   notes      |-> Subst(text, 1, "GAP", <<"-- n", "LF">>, Every(1)),
   blocknote  |-> Subst(text, 1, "GAP", <<"[- n -]", "LF">>, Odd(1)),
   \* blanks after the `---` fences of a front matter (the fence is compared after trimming the line end)
   fenceblank |-> Subst(text, 1, "---", <<"---", "  ">>, Every(1)),
   fencetab   |-> Subst(text, 1, "---", <<"---", "TAB">>, Odd(1)),
   \* inside a two-word name: the blanks around a comment or a line break still collapse to one
   namecomment |-> Subst(text, 1, "NSP", <<" [- x -] ">>, Every(1)),
   namebreak  |-> Subst(text, 1, "NSP", <<" -- x", "LF">>, Odd(1)),
   namewrap   |-> Subst(text, 1, "NSP", <<" ", "LF", " ">>, Every(1)),
   \* block comments closed in the decorated style: the terminator sits behind a run of dashes
   blockdash  |-> Subst(text, 1, "SP", <<" [-- x --] ">>, Every(1)),
   notedash   |-> Subst(text, 1, "GAP", <<"[--- n ---]", "LF">>, Every(1))]

(* ---- what the specification predicts for the finished document ------------------------------------- *)
DiagClasses == [i \in DOMAIN a.diags |-> a.diags[i]]
OnlyDeprecation == \A i \in DOMAIN a.diags : a.diags[i].class = "DeprecatedMetadata"
Prediction == [model |-> ModelOf(a), valid |-> Valid(a), diags |-> a.diags, wellformed |-> (OnlyDeprecation /\ ~a.failed /\ w.defect = NoDefect), failed |-> a.failed]
Emit == Done => PrintT(<<"REPLAY", IF Variants /\ ~w.crlf THEN ToJson([text |-> text, ext |-> Ext, conv |-> Conv, pred |-> Prediction, uses |-> w.uses, variants |-> VariantTexts])
                                   ELSE IF w.defect = NoDefect THEN ToJson([text |-> text, ext |-> Ext, conv |-> Conv, pred |-> Prediction, uses |-> w.uses])
                                   ELSE ToJson([text |-> text, ext |-> Ext, conv |-> Conv, pred |-> Prediction, uses |-> w.uses, defect |-> w.defect])>>)

(* ---- C06 / C07 at model level: invariants of every reachable analysis state ------------------------------ *)
InvConsistent == (Done /\ ~a.failed) => Consistent(ModelOf(a))       \* a parse error returns no recipe at all
InvValidRefs  == (Done /\ Valid(a)) => ValidRefIffModifier(ModelOf(a)) /\ ValidSameFoldedName(ModelOf(a), Fold)
InvValidity   == Valid(a) <=> (~a.failed /\ \A i \in DOMAIN a.diags : a.diags[i].sev # "error")
=============================================================================
