----------------------------- MODULE CookFraction -----------------------------
(***************************************************************************)
(* M11: Number::new_approx (src/quantity.rs) and its lookup table, in exact *)
(* integer arithmetic on the dyadic grid  v = W + j/G  (exact in binary     *)
(* floating point too).  The accuracy is a whole number of percent.         *)
(* The C12 postcondition `Acceptable` is a literal transcription of the     *)
(* property; it is checked on the model's own output (design) and on the    *)
(* recorded output of the real function (Trace_Fraction).                   *)
(***************************************************************************)
EXTENDS Naturals, Integers, Sequences, FiniteSets, TLC, SequencesExt

CONSTANT G                         \* grid: fractional part is j/G, G a power of two <= 4096
Denoms    == {2, 3, 4, 8, 10, 16}                 \* FractionLookupTable::DENOMS
Supported == {2, 3, 4, 5, 8, 10, 16, 32, 64}      \* the documented set ("common fractions")
FIX == 10000

(* ---- the lookup table: (fixed value, num, den), one entry per fixed value, smallest den ---- *)
Raw == { [x |-> (n * FIX) \div d, n |-> n, d |-> d] : d \in Denoms, n \in 1..15 } 
Entries == { e \in Raw : e.n < e.d /\ \A f \in Raw : (f.n < f.d /\ f.x = e.x) => e.d <= f.d }
Table == SetToSortSeq(Entries, LAMBDA a, b : a.x < b.x)
Abs(i) == IF i < 0 THEN -i ELSE i

\* FractionLookupTable::lookup(j/G, maxDen): [ok |-> BOOLEAN, n, d]
None == [ok |-> FALSE, n |-> 0, d |-> 1]
Lookup(j, maxDen) ==
  LET fixed == (j * FIX) \div G
      ok(i) == Table[i].d <= maxDen
      exact == {i \in DOMAIN Table : Table[i].x = fixed /\ ok(i)}
      \* pos: index of the entry equal to fixed, else the insertion point
      pos == IF \E i \in DOMAIN Table : Table[i].x >= fixed
             THEN CHOOSE i \in DOMAIN Table : Table[i].x >= fixed /\ \A k \in 1..(i - 1) : Table[k].x < fixed
             ELSE Len(Table) + 1
      highs == {i \in DOMAIN Table : i >= pos /\ ok(i)}
      lows  == {i \in DOMAIN Table : i < pos /\ ok(i)}
      hi == CHOOSE i \in highs : \A k \in highs : i <= k
      lo == CHOOSE i \in lows : \A k \in lows : i >= k
      pick(i) == [ok |-> TRUE, n |-> Table[i].n, d |-> Table[i].d]
  IN IF exact # {} THEN pick(CHOOSE i \in exact : TRUE)
     ELSE IF highs = {} /\ lows = {} THEN None
     ELSE IF lows = {} THEN pick(hi)
     ELSE IF highs = {} THEN pick(lo)
     ELSE LET aerr == Abs(Table[lo].x - fixed)  berr == Abs(Table[hi].x - fixed)
          IN IF aerr < berr \/ (aerr = berr /\ Table[lo].d <= Table[hi].d) THEN pick(lo) ELSE pick(hi)

(* ---- new_approx on v = W + j/G, accuracy acc percent -------------------------------- *)
\* all comparisons are cross-multiplied: v = (W*G + j)/G, err = v - approx
NoOut == [kind |-> "none", whole |-> 0, num |-> 0, den |-> 1]
Approx(W, j, acc, maxDen, maxWhole) ==
  LET vnum == W * G + j                           \* v = vnum / G
      rounded == IF 2 * j >= G THEN W + 1 ELSE W
      \* |round_err| < acc/100 * v   <=>   100 * |vnum - rounded*G| < acc * vnum
      roundOk == 100 * Abs(vnum - rounded * G) < acc * vnum
      f == Lookup(j, maxDen)
      \* err = v - (W + n/d) = (j*d - n*G) / (G*d);  |err| > acc/100*v  <=>  100*|j*d - n*G| > acc * vnum * d
      tooFar == 100 * Abs(j * f.d - f.n * G) > acc * vnum * f.d
  IN IF vnum = 0 THEN NoOut
     ELSE IF W > maxWhole THEN NoOut
     ELSE IF j = 0 THEN [kind |-> "regular", whole |-> W, num |-> 0, den |-> 1]
     ELSE IF roundOk /\ rounded > 0 /\ rounded <= maxWhole THEN [kind |-> "fraction", whole |-> rounded, num |-> 0, den |-> 1]
     ELSE IF ~f.ok THEN NoOut
     ELSE IF tooFar THEN NoOut
     ELSE [kind |-> "fraction", whole |-> W, num |-> f.n, den |-> f.d]

(* ---- C12 ---------------------------------------------------------------------------------------- *)
\* structural part of the property (the IEEE facts "exact value equals the input" and "error within the
\* accuracy" are separate conjuncts because only the harness can evaluate them on doubles)
Structure(out, maxDen, maxWhole) ==
  \/ out.kind = "none"
  \/ out.kind = "regular" /\ out.whole <= maxWhole
  \/ /\ out.kind = "fraction"
     /\ out.whole <= maxWhole
     /\ \/ out.num = 0
        \/ out.den \in Supported /\ out.den <= maxDen /\ 0 < out.num /\ out.num < out.den
\* error of the model's own answer within the accuracy, in exact arithmetic
ModelErrWithin(W, j, acc, out) ==
  out.kind = "fraction" =>
     100 * Abs((W * G + j) * out.den - (out.whole * out.den + out.num) * G) <= acc * (W * G + j) * out.den
IntegersArePlain(W, j, maxWhole, out) == (j = 0 /\ W > 0 /\ W <= maxWhole) => out.kind = "regular" /\ out.whole = W
Shown(w, n, d) == IF w = 0 /\ n = 0 THEN "0"
                  ELSE IF w = 0 THEN ToString(n) \o "/" \o ToString(d)
                  ELSE IF n = 0 THEN ToString(w)
                  ELSE ToString(w) \o " " \o ToString(n) \o "/" \o ToString(d)
=============================================================================
