CONSTANTS
  Ext = {}
  Conv = "bundled"
  Clauses = {"ItemsIndexExisting", "ComponentsInDocOrder", "RefsPointBackToDefs", "BackLinksExactlyOnce", "StepRefsEarlierSameSection", "SectionRefsEarlier", "StepNumbering", "NothingEmpty", "TimersNonEmpty", "ValidRefIffModifier", "ValidSameFoldedName", "CollectorSteps"}
INIT TInit
NEXT TNext
CHECK_DEADLOCK FALSE
