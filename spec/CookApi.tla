------------------------------ MODULE CookApi ------------------------------
(***************************************************************************)
(* M15: the public API seen as a typestate protocol (lib.rs docs: parsing  *)
(* returns a ScalableRecipe, which is scaled or default-scaled exactly     *)
(* once into a ScaledRecipe, which can then be converted, grouped, listed, *)
(* read and serialised any number of times).  A program is a sequence of   *)
(* calls the protocol allows.  C03 says: whatever the input, every call of *)
(* every such program RETURNS - there is no transition for a panic, an     *)
(* overflow or a call that never comes back.                               *)
(***************************************************************************)
EXTENDS Naturals, Sequences, FiniteSets, TLC

VARIABLES ts,      \* typestate of the value in hand: "input" | "result" | "scalable" | "scaled"
          prog     \* calls made so far (history)
apivars == <<ts, prog>>

OnInput    == {"parse"}
OnResult   == {"report_write", "metadata_only", "events", "build_ast", "output"}
OnScalable == {"accessors", "serialize", "scale", "scale_servings", "default_scale"}
OnScaled   == {"accessors", "serialize", "convert_metric", "convert_imperial", "group_ingredients",
               "group_cookware", "ingredient_list", "categorize"}
Calls == OnInput \cup OnResult \cup OnScalable \cup OnScaled

Enabled(c, t) == \/ t = "input" /\ c \in OnInput
                 \/ t = "result" /\ c \in OnResult
                 \/ t = "scalable" /\ c \in OnScalable
                 \/ t = "scaled" /\ c \in OnScaled
Post(c, t) == CASE c = "parse" -> "result"
                [] c = "output" -> "scalable"
                [] c \in {"scale", "scale_servings", "default_scale"} -> "scaled"
                [] OTHER -> t

Init == ts = "input" /\ prog = <<>>
Call(c) == Enabled(c, ts) /\ ts' = Post(c, ts) /\ prog' = Append(prog, c)
Next == \E c \in Calls : Call(c)

\* a recorded call sequence with its outcomes obeys the protocol and every call returned
RECURSIVE Walk(_, _, _)
Walk(calls, i, t) == IF i > Len(calls) THEN TRUE
                     ELSE LET c == calls[i] IN
                          /\ Enabled(c.c, t)
                          /\ c.st = "ret"
                          /\ Walk(calls, i + 1, Post(c.c, t))
Accepts(calls) == Walk(calls, 1, "input")

\* design invariants: a recipe is scaled at most once; nothing is converted before it is scaled
ScaleCount == Cardinality({i \in DOMAIN prog : prog[i] \in {"scale", "scale_servings", "default_scale"}})
InvScaledOnce == ScaleCount <= 1
InvConvertAfterScale == \A i \in DOMAIN prog : prog[i] \in {"convert_metric", "convert_imperial"} =>
                           \E j \in 1..(i - 1) : prog[j] \in {"scale", "scale_servings", "default_scale"}
=============================================================================
