------------------------------- MODULE MC_Group -------------------------------
(* Two groups are filled from a pool (every sequence up to MaxAdds adds in total), *)
(* then the second is merged into the first.  Conservation is an invariant after    *)
(* every step; every finished behaviour is printed as the operation sequence.       *)
EXTENDS CookGroup, Json
CONSTANTS MaxAdds
VARIABLES g1, g2, in1, in2, ops, merged
vars == <<g1, g2, in1, in2, ops, merged>>
N(v4, u) == [t |-> "num", lo |-> v4, hi |-> v4, unit |-> u, txt |-> ""]
R(a4, b4, u) == [t |-> "range", lo |-> a4, hi |-> b4, unit |-> u, txt |-> ""]
T(s, u) == [t |-> "text", lo |-> 0, hi |-> 0, unit |-> u, txt |-> s]
Pool == { N(1000, "ml"), N(4, "l"), N(8, "cup"), N(6, "tsp"), R(4, 8, "l"), N(2000, "g"), N(4, "lb"), N(6, "kg"),
          N(8, "Bag"), N(4, "Bag"), N(4, "box"), N(12, ""), N(2, ""), R(4, 12, ""), T("some", ""), T("a pinch", "g"), T("some", "") }
Init == g1 = Empty /\ g2 = Empty /\ in1 = <<>> /\ in2 = <<>> /\ ops = <<>> /\ merged = FALSE
AddOp(k) == /\ ~merged /\ Len(in1) + Len(in2) < MaxAdds
            /\ \E q \in Pool :
                 /\ ops' = Append(ops, [op |-> "add", g |-> k, q |-> q])
                 /\ IF k = 1 THEN g1' = Add(g1, q) /\ in1' = Append(in1, q) /\ UNCHANGED <<g2, in2>>
                    ELSE g2' = Add(g2, q) /\ in2' = Append(in2, q) /\ UNCHANGED <<g1, in1>>
            /\ UNCHANGED merged
MergeOp == /\ ~merged /\ in2 # <<>> /\ merged' = TRUE /\ g1' = Merge(g1, g2) /\ in1' = in1 \o in2
           /\ ops' = Append(ops, [op |-> "merge", g |-> 1, q |-> N(0, "")]) /\ UNCHANGED <<g2, in2>>
Next == AddOp(1) \/ AddOp(2) \/ MergeOp
Conservation == Conserves(g1, in1) /\ Conserves(g2, in2)
\* behaviours worth replaying: after the merge, or a single group at the bound
Finished == merged \/ (in2 = <<>> /\ Len(in1) = MaxAdds)
Emit == Finished => PrintT(<<"REPLAY", ToJson([ops |-> ops, totals1 |-> GroupTotals(g1), texts1 |-> GroupTexts(g1), totals2 |-> GroupTotals(g2), texts2 |-> GroupTexts(g2)])>>)
=============================================================================
