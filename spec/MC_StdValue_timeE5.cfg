CONSTANTS
  Conv = "empty"
  MaxLen = 5
  Kind = "time"
INIT Init
NEXT Next
INVARIANTS TypeOk Emit
CHECK_DEADLOCK FALSE
