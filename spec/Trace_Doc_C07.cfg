CONSTANTS
  Ext = {}
  Conv = "bundled"
  Clauses = {"NoSpuriousDiagnostics", "ValidIffOutputAndNoError", "ParseErrorSuppresses", "AnalysisErrorKeepsOutput", "PredictedDiagnostics", "DefectReported", "ValidityAsPredicted"}
INIT TInit
NEXT TNext
CHECK_DEADLOCK FALSE
