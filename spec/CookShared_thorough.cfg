CONSTANTS
  Threads = {"t1", "t2", "t3"}
  Inputs = {"plain", "needs fractions"}
  MaxCalls = 5
INIT Init
NEXT Next
INVARIANTS Deterministic OneBuilder
PROPERTY TableOnce
CHECK_DEADLOCK FALSE
