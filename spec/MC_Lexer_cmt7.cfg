CONSTANTS
  Alphabet <- Comments
  MaxLen = 7
INIT MCInit
NEXT MCNext
INVARIANTS InvPrefixTiles InvProgress InvFunctional InvNewline NoStuck Emit
CHECK_DEADLOCK FALSE
