CONSTANTS
  Ext = {}
  Conv = "bundled"
  Clauses = {"Returns", "ParsesWithoutErrors", "Ingredients", "Cookware", "Timers", "InlineQuantities", "Sections", "Metadata", "Servings"}
INIT TInit
NEXT TNext
CHECK_DEADLOCK FALSE
