CONSTANTS
  MaxLayers = 3
INIT MCInit
NEXT MCNext
INVARIANTS EveryKeyResolvesToItsUnit NoSharedKey IndexHasOnlyUnitKeys BestOwnQuantity Terminates Emit
CHECK_DEADLOCK FALSE
