CONSTANTS
  Ext <- AllExtensions
  Conv = "bundled"
  Variants = FALSE
  Syntax <- SyntaxAsExt
  Defects = FALSE
  Mode = "bfs"
  Kernel = "switch"
  MaxBlocks = 4
  MaxItems = 1
  MaxComps = 2
INIT Init
NEXT Next
INVARIANTS InvConsistent InvValidRefs InvValidity Emit
CHECK_DEADLOCK FALSE
