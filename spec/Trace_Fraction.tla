---------------------------- MODULE Trace_Fraction ----------------------------
(* Trace specification for C12: judges recorded results of Number::new_approx. *)
(* Integer facts are compared here; the facts only IEEE-754 arithmetic can      *)
(* establish (exact, errWithin, vint, ...) are recorded by the harness.         *)
EXTENDS CookFraction, Json, IOUtils
VARIABLES l
Recs == ndJsonDeserialize(IOEnv.TRACE)

WholeOk(r) == IF r.maxWholeI >= 0 /\ r.obs.whole >= 0 THEN r.obs.whole <= r.maxWholeI ELSE r.obs.whole_le_max
Clauses == {"Returns", "Declines", "WholeWithinLimit", "FractionShape", "ExactValue", "ErrorWithinAccuracy",
            "IntegersArePlain", "Display"}
Holds(c, r) ==
  CASE c = "Returns"             -> r.obs.kind # "panic"
    [] c = "Declines"            -> r.vclass # "pos" => r.obs.kind \in {"none", "panic"}
    [] c = "WholeWithinLimit"    -> r.obs.kind \in {"regular", "fraction"} => WholeOk(r)
    [] c = "FractionShape"       -> r.obs.kind = "fraction" =>
                                      (r.obs.num = 0 \/ (r.obs.den \in Supported /\ r.obs.den <= r.maxDenI
                                                         /\ 0 < r.obs.num /\ r.obs.num < r.obs.den))
    [] c = "ExactValue"          -> r.obs.kind \in {"regular", "fraction"} => r.obs.exact
    [] c = "ErrorWithinAccuracy" -> r.obs.kind = "fraction" => r.obs.errWithin
    [] c = "IntegersArePlain"    -> (r.vclass = "pos" /\ r.vint /\ r.vtrunc_le) => r.obs.kind \in {"regular", "panic"}
    [] c = "Display"             -> (r.obs.kind = "fraction" /\ r.obs.whole >= 0 /\ r.obs.num >= 0 /\ r.obs.den > 0)
                                      => r.obs.display = Shown(r.obs.whole, r.obs.num, r.obs.den)
Details == {"AsModel"}
Agrees(d, r) ==
  CASE d = "AsModel" -> ("pred" \in DOMAIN r /\ r.obs.kind # "panic") =>
                          /\ r.obs.kind = r.pred.kind
                          /\ r.obs.kind = "fraction" => (r.obs.whole = r.pred.whole /\ r.obs.num = r.pred.num /\ r.obs.den = r.pred.den)
Failed(r) == {c \in Clauses : ~Holds(c, r)}
Drift(r)  == {d \in Details : ~Agrees(d, r)}
TInit == l = 1
TNext == /\ l <= Len(Recs)
         /\ LET r == Recs[l] f == Failed(r) d == Drift(r) IN
              /\ IF f = {} THEN TRUE ELSE PrintT(<<"BAD", l, f>>)
              /\ IF d = {} THEN TRUE ELSE PrintT(<<"NOTE", l, d>>)
         /\ IF l = Len(Recs) THEN PrintT(<<"CONSUMED", l>>) ELSE TRUE
         /\ l' = l + 1
=============================================================================
