CONSTANTS
  Alphabet = {"1", "0", "2", "/", ".", "-", " ", "%", "a", "=", "|", "NBSP"}
  MaxLen = 5
  Prefix <- PfxIgrBrace
  Suffix <- SfxBrace
  ExtChoices <- ExtMany
  OsmChoices <- OnlyOsm
INIT MCInit
NEXT MCNext
INVARIANTS InvOrdered InvBracketed InvProgress2 InvFunctional2 NoStuck2 InvCovered Emit2
CHECK_DEADLOCK FALSE
