------------------------------ MODULE CookCombine ------------------------------
(***************************************************************************)
(* M14: the bindings' ingredient combination (bindings/src/model.rs:        *)
(* combine_ingredients(_selected), merge_grouped_quantities).  An          *)
(* ingredient is [name, amount] with amount = NoAmount or [t, lo, hi, txt, *)
(* unit] (values in quarter units).  The combined list maps a name to one  *)
(* value per (unit, type): numbers add, ranges add end-wise, texts are     *)
(* concatenated (order dependent, so not part of the law), "no amount"     *)
(* stays "some".  C19: numeric sums per name and unit count each selected  *)
(* input once, whatever the order; a selection equals that sub-list.       *)
(***************************************************************************)
EXTENDS Naturals, Sequences, FiniteSets, TLC
NoAmount == [t |-> "empty", lo |-> 0, hi |-> 0, txt |-> "", unit |-> ""]
TypeOf(a) == a.t        \* "number" | "range" | "text" | "empty"
KeyOf(i) == [name |-> i.name, unit |-> i.amount.unit, type |-> TypeOf(i.amount)]
\* the ingredients picked by a sequence of indices (1-based), in that order, duplicates counted as often as listed
Picked(list, sel) == [k \in DOMAIN sel |-> list[sel[k]]]
RECURSIVE SumLo(_, _, _), SumHi(_, _, _)
SumLo(xs, key, i) == IF i > Len(xs) THEN 0 ELSE (IF KeyOf(xs[i]) = key THEN xs[i].amount.lo ELSE 0) + SumLo(xs, key, i + 1)
SumHi(xs, key, i) == IF i > Len(xs) THEN 0 ELSE (IF KeyOf(xs[i]) = key THEN xs[i].amount.hi ELSE 0) + SumHi(xs, key, i + 1)
\* the numeric part of the combined list: one entry per (name, unit, type in {number, range})
Combined(xs) == { [name |-> k.name, unit |-> k.unit, type |-> k.type, lo |-> SumLo(xs, k, 1), hi |-> SumHi(xs, k, 1)] :
                  k \in {KeyOf(xs[i]) : i \in {j \in DOMAIN xs : TypeOf(xs[j].amount) \in {"number", "range"}}} }
\* every (name, unit, type) key that must be present at all (texts and empties included)
Keys(xs) == {KeyOf(xs[i]) : i \in DOMAIN xs}
=============================================================================
