CONSTANTS
  Ext <- AllExtensions
  Conv = "bundled"
  Variants = FALSE
  Syntax <- SyntaxAsExt
  Defects = FALSE
  Mode = "bfs"
  Kernel = "cw"
  MaxBlocks = 2
  MaxItems = 2
  MaxComps = 2
INIT Init
NEXT Next
INVARIANTS InvConsistent InvValidRefs InvValidity Emit
CHECK_DEADLOCK FALSE
