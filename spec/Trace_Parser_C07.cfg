CONSTANTS
  Clauses = {"Returns", "SilentWhenSpecifiedSilent", "DiagnosedAsSpecified"}
INIT TInit
NEXT TNext
CHECK_DEADLOCK FALSE
