CONSTANTS
  Conv = "empty"
  MaxLen = 4
  Kind = "time"
INIT Init
NEXT Next
INVARIANTS TypeOk Emit
CHECK_DEADLOCK FALSE
