----------------------------- MODULE Trace_Convert -----------------------------
(* Trace specification for C09.  Three kinds of records:                          *)
(*  model   - a case of MC_Convert (quantity, target, exact predicted outcome)    *)
(*            with what ScaledQuantity::convert / fit and Converter::convert did  *)
(*  bundled - an ordered pair of bundled units: there-and-back, via every third   *)
(*            unit, agreement with the standard definitions (StdDefs)             *)
(*  recipe  - ScaledRecipe::convert on a recipe: amounts preserved, units from    *)
(*            the designated list, failures unchanged and all reported            *)
(* Floating-point comparisons are facts recorded by the harness (tolerances in    *)
(* DESIGN section 5); which fact must hold when is decided here.                  *)
EXTENDS Naturals, Sequences, TLC, Json, IOUtils
VARIABLES l
Recs == ndJsonDeserialize(IOEnv.TRACE)
Range(f) == {f[i] : i \in DOMAIN f}
HasAlts(r) == "alts" \in DOMAIN r.pred
Clauses == {"Returns", "SucceedsOrFailsAsSpecified", "FailureLeavesUnchanged", "AmountAsDefined", "UnitFromDesignatedList",
            "ApiAgrees", "ThereAndBack", "ViaThirdUnit", "StandardDefinition", "RecipeAmountsPreserved", "RecipeUnitsFromBestList",
            "RecipeFailuresUnchangedAndReported", "FitPreservesAmount", "LayeredAmountAsDefined"}
Holds(c, r) ==
  CASE c = "Returns" -> (r.kind_rec = "model" => r.obs.st # "panic") /\ (r.kind_rec = "recipe" => r.st # "panic")
    [] c = "SucceedsOrFailsAsSpecified" -> (r.kind_rec = "model" /\ r.obs.st # "panic") => ((r.obs.st = "ok") <=> r.pred.ok)
    \* which error class a failing conversion reports is not part of the property (drift FailureClassAsSpecified)
    [] c = "FailureLeavesUnchanged" -> (r.kind_rec = "model" /\ r.obs.st = "err") => r.obs.unchanged
    \* to a unit: the exact amount in that unit; to a system / fit: the exact amount in whichever unit of the designated list was
    \* chosen (obs.close_alt: the harness compared the observed numbers with the specification's amount for the observed unit)
    [] c = "AmountAsDefined" -> (r.kind_rec = "model" /\ r.obs.st = "ok" /\ r.pred.ok /\ r.pred.err = "") =>
                                   (IF HasAlts(r) THEN r.obs.close_alt ELSE r.obs.close)
    \* which unit of the list is chosen is decided by thresholds the property does not fix: membership is the clause,
    \* equality with the predicted unit is drift (BestUnitAsSpecified)
    [] c = "UnitFromDesignatedList" -> (r.kind_rec = "model" /\ r.obs.st = "ok" /\ r.pred.ok /\ r.pred.err = "") =>
                                   (IF HasAlts(r) THEN \E a \in Range(r.pred.alts) : a.unit = r.obs.unit ELSE r.obs.unit = r.pred.unit)
    [] c = "ApiAgrees" -> (r.kind_rec = "model" /\ r.obs.api # "n/a") => (IF r.pred.ok THEN r.obs.api = "ok" ELSE r.obs.api \notin {"ok", "differs", "panic"})
    [] c = "ThereAndBack" -> r.kind_rec = "bundled" => r.back_ok
    [] c = "ViaThirdUnit" -> r.kind_rec = "bundled" => r.via_ok
    [] c = "StandardDefinition" -> (r.kind_rec = "bundled" /\ r.has_std) => r.std_ok
    [] c = "FitPreservesAmount" -> r.kind_rec = "fit" => r.preserved
    \* a converter CookBuilder predicts to be built from layers converts between every pair of its units by the predicted ratios
    [] c = "LayeredAmountAsDefined" -> r.kind_rec = "layered" => (r.st = "built" /\ r.bad = 0)
    [] c = "RecipeAmountsPreserved" -> (r.kind_rec = "recipe" /\ r.st = "ok") => r.preserved
    [] c = "RecipeUnitsFromBestList" -> (r.kind_rec = "recipe" /\ r.st = "ok") => r.in_best
    [] c = "RecipeFailuresUnchangedAndReported" -> (r.kind_rec = "recipe" /\ r.st = "ok") => (r.unchanged_failures /\ r.errors = r.failures)
Details == {"FailureClassAsSpecified", "BestUnitAsSpecified"}
Agrees(d, r) ==
  CASE d = "FailureClassAsSpecified" -> (r.kind_rec = "model" /\ r.obs.st = "err" /\ ~r.pred.ok) => r.obs.err = r.pred.err
    [] d = "BestUnitAsSpecified" -> (r.kind_rec = "model" /\ r.obs.st = "ok" /\ r.pred.ok /\ r.pred.err = "") => r.obs.unit = r.pred.unit
Failed(r) == {c \in Clauses : ~Holds(c, r)}
Drift(r) == {d \in Details : ~Agrees(d, r)}
TInit == l = 1
TNext == /\ l <= Len(Recs)
         /\ LET f == Failed(Recs[l]) d == Drift(Recs[l]) IN
              /\ IF f = {} THEN TRUE ELSE PrintT(<<"BAD", l, f>>)
              /\ IF d = {} THEN TRUE ELSE PrintT(<<"NOTE", l, d>>)
         /\ IF l = Len(Recs) THEN PrintT(<<"CONSUMED", l>>) ELSE TRUE
         /\ l' = l + 1
=============================================================================
