----------------------------- MODULE Trace_Convert -----------------------------
(* Trace specification for C09.  Three kinds of records:                          *)
(*  model   - a case of MC_Convert (quantity, target, exact predicted outcome)    *)
(*            with what ScaledQuantity::convert / fit and Converter::convert did  *)
(*  bundled - an ordered pair of bundled units: there-and-back, via every third   *)
(*            unit, agreement with the standard definitions (StdDefs)             *)
(*  recipe  - ScaledRecipe::convert on a recipe: amounts preserved, units from    *)
(*            the designated list, failures unchanged and all reported            *)
(* Floating-point comparisons are facts recorded by the harness (tolerances in    *)
(* DESIGN section 5); which fact must hold when is decided here.                  *)
EXTENDS Naturals, Sequences, TLC, Json, IOUtils
VARIABLES l
Recs == ndJsonDeserialize(IOEnv.TRACE)
Clauses == {"Returns", "SucceedsOrFailsAsSpecified", "FailureClassAndUnchanged", "AmountAsDefined", "UnitFromDesignatedList",
            "ApiAgrees", "ThereAndBack", "ViaThirdUnit", "StandardDefinition", "RecipeAmountsPreserved", "RecipeUnitsFromBestList",
            "RecipeFailuresUnchangedAndReported", "FitPreservesAmount"}
Holds(c, r) ==
  CASE c = "Returns" -> (r.kind_rec = "model" => r.obs.st # "panic") /\ (r.kind_rec = "recipe" => r.st # "panic")
    [] c = "SucceedsOrFailsAsSpecified" -> (r.kind_rec = "model" /\ r.obs.st # "panic") => ((r.obs.st = "ok") <=> r.pred.ok)
    [] c = "FailureClassAndUnchanged" -> (r.kind_rec = "model" /\ r.obs.st = "err") => (r.obs.unchanged /\ (~r.pred.ok => r.obs.err = r.pred.err))
    [] c = "AmountAsDefined" -> (r.kind_rec = "model" /\ r.obs.st = "ok" /\ r.pred.ok /\ r.pred.err = "") => r.obs.close
    \* which unit of the list is chosen is decided by thresholds; equality with the predicted one is part of "picks a unit from the list
    \* and preserves the amount" only through the list membership; the predicted unit is compared as well (exact arithmetic on the model)
    [] c = "UnitFromDesignatedList" -> (r.kind_rec = "model" /\ r.obs.st = "ok" /\ r.pred.ok /\ r.pred.err = "") => r.obs.unit = r.pred.unit
    [] c = "ApiAgrees" -> (r.kind_rec = "model" /\ r.obs.api # "n/a") => (IF r.pred.ok THEN r.obs.api = "ok" ELSE r.obs.api = r.pred.err)
    [] c = "ThereAndBack" -> r.kind_rec = "bundled" => r.back_ok
    [] c = "ViaThirdUnit" -> r.kind_rec = "bundled" => r.via_ok
    [] c = "StandardDefinition" -> (r.kind_rec = "bundled" /\ r.has_std) => r.std_ok
    [] c = "FitPreservesAmount" -> r.kind_rec = "fit" => r.preserved
    [] c = "RecipeAmountsPreserved" -> (r.kind_rec = "recipe" /\ r.st = "ok") => r.preserved
    [] c = "RecipeUnitsFromBestList" -> (r.kind_rec = "recipe" /\ r.st = "ok") => r.in_best
    [] c = "RecipeFailuresUnchangedAndReported" -> (r.kind_rec = "recipe" /\ r.st = "ok") => (r.unchanged_failures /\ r.errors = r.failures)
Failed(r) == {c \in Clauses : ~Holds(c, r)}
TInit == l = 1
TNext == /\ l <= Len(Recs)
         /\ LET f == Failed(Recs[l]) IN IF f = {} THEN TRUE ELSE PrintT(<<"BAD", l, f>>)
         /\ IF l = Len(Recs) THEN PrintT(<<"CONSUMED", l>>) ELSE TRUE
         /\ l' = l + 1
=============================================================================
