----------------------------- MODULE CookStdValue -----------------------------
(***************************************************************************)
(* The readers of the standard metadata values as parsers over characters: *)
(* a transcription of src/metadata.rs - parse_time (the compact HhMm form, *)
(* number-unit pairs with the hard-coded or the converter's units, the     *)
(* float fallback, rounding), value_as_servings (string form),             *)
(* value_as_tags (string form) and value_as_locale.  CookMeta states the   *)
(* documented forms shape by shape; this module says what EVERY short      *)
(* string reads as, so that a value nobody thought of is decided too.      *)
(* Strings are sequences of one-character strings.                         *)
(***************************************************************************)
EXTENDS Naturals, Integers, Sequences, FiniteSets, TLC
CONSTANTS Conv       \* "empty": the hard-coded time units | "bundled": the units of units.toml

Digits == {"0", "1", "2", "3", "4", "5", "6", "7", "8", "9"}
Letters == {"a", "b", "c", "d", "e", "f", "g", "h", "i", "j", "k", "l", "m", "n", "o", "p", "q", "r", "s", "t", "u", "v", "w", "x", "y", "z",
            "A", "B", "C", "D", "E", "F", "G", "H", "I", "J", "K", "L", "M", "N", "O", "P", "Q", "R", "S", "T", "U", "V", "W", "X", "Y", "Z"}
DVal(c) == CASE c = "0" -> 0 [] c = "1" -> 1 [] c = "2" -> 2 [] c = "3" -> 3 [] c = "4" -> 4 [] c = "5" -> 5 [] c = "6" -> 6 [] c = "7" -> 7 [] c = "8" -> 8 [] c = "9" -> 9
None == [t |-> "none"]
RECURSIVE NatOf(_, _)
NatOf(s, acc) == IF s = <<>> THEN acc ELSE NatOf(Tail(s), acc * 10 + DVal(Head(s)))
AllIn(s, S) == \A i \in DOMAIN s : s[i] \in S
RECURSIVE Pow10(_)
Pow10(k) == IF k = 0 THEN 1 ELSE 10 * Pow10(k - 1)
RECURSIVE Str(_)
Str(s) == IF s = <<>> THEN "" ELSE Head(s) \o Str(Tail(s))
RECURSIVE NatStr(_)
NatStr(n) == IF n < 10 THEN ToString(n) ELSE NatStr(n \div 10) \o ToString(n % 10)
\* str::trim for the blanks of the alphabet
Trim(s) == LET ps == {p \in DOMAIN s : s[p] # " "} IN IF ps = {} THEN <<>> ELSE SubSeq(s, CHOOSE a \in ps : \A b \in ps : a <= b, CHOOSE a \in ps : \A b \in ps : a >= b)
\* str::split(sep): pieces between separators (always at least one piece)
RECURSIVE SplitOn(_, _, _, _)
SplitOn(s, sep, i, cur) == IF i > Len(s) THEN <<cur>> ELSE IF s[i] = sep THEN <<cur>> \o SplitOn(s, sep, i + 1, <<>>) ELSE SplitOn(s, sep, i + 1, Append(cur, s[i]))
Split(s, sep) == SplitOn(s, sep, 1, <<>>)
\* u32::from_str: an optional `+`, then at least one digit (short strings: no overflow)
U32(s) == LET t == IF s # <<>> /\ Head(s) = "+" THEN Tail(s) ELSE s
          IN IF t # <<>> /\ AllIn(t, Digits) THEN [ok |-> TRUE, v |-> NatOf(t, 0)] ELSE [ok |-> FALSE]

(* ---- parse_common_time_format: <H>h<M>m, nothing else ------------------------------------------------------- *)
RECURSIVE SplitInc(_, _, _)
SplitInc(s, i, cur) == IF i > Len(s) THEN (IF cur = <<>> THEN <<>> ELSE <<cur>>)
                       ELSE IF s[i] \in {"h", "m"} THEN <<Append(cur, s[i])>> \o SplitInc(s, i + 1, <<>>) ELSE SplitInc(s, i + 1, Append(cur, s[i]))
RECURSIVE CommonLoop(_, _, _, _)
CommonLoop(ps, k, total, hoursFound) ==
  IF k > Len(ps) THEN [ok |-> TRUE, v |-> total, next |-> k]
  ELSE LET p == ps[k] last == p[Len(p)] u == U32(SubSeq(p, 1, Len(p) - 1)) IN
    IF last = "h" /\ ~hoursFound THEN (IF u.ok THEN CommonLoop(ps, k + 1, total + u.v * 60, TRUE) ELSE [ok |-> FALSE])
    ELSE IF last = "m" THEN (IF u.ok THEN [ok |-> TRUE, v |-> total + u.v, next |-> k + 1] ELSE [ok |-> FALSE])
    ELSE [ok |-> FALSE]
Common(s) == LET ps == SplitInc(s, 1, <<>>) r == CommonLoop(ps, 1, 0, FALSE)
             IN IF r.ok /\ r.next > Len(ps) THEN [ok |-> TRUE, v |-> r.v] ELSE [ok |-> FALSE]

(* ---- decimal numbers as f64::from_str reads strings of digits and dots; amounts in 1/60000 of a minute ----------- *)
\* (TLC has 32-bit integers: a part whose amount would not fit makes the whole string "big" - it is not decided here)
\* [ok, a, k]: value a / 10^k
Decimal(s) == LET dots == {p \in DOMAIN s : s[p] = "."} ds == SelectSeq(s, LAMBDA c : c # ".") IN
              IF ~AllIn(s, Digits \cup {"."}) \/ Cardinality(dots) > 1 \/ ds = <<>> \/ Len(ds) > 7 THEN [ok |-> FALSE]
              ELSE [ok |-> TRUE, a |-> NatOf(ds, 0), k |-> IF dots = {} THEN 0 ELSE Len(s) - (CHOOSE p \in dots : TRUE)]
\* seconds per unit, by the names each converter knows
UnitSecs(u) ==
  LET n == Str(u) IN
  IF Conv = "empty"
  THEN CASE n \in {"s", "sec", "secs", "second", "seconds"} -> 1 [] n \in {"m", "min", "minute", "minutes"} -> 60
         [] n \in {"h", "hour", "hours"} -> 3600 [] n \in {"d", "day", "days"} -> 86400 [] OTHER -> 0
  ELSE CASE n \in {"s", "sec", "secs", "second", "seconds"} -> 1 [] n \in {"min", "mins", "minute", "minutes"} -> 60
         [] n \in {"h", "hour", "hours"} -> 3600 [] n \in {"d", "day", "days"} -> 86400 [] OTHER -> 0
Words(s) == SelectSeq(Split(s, " "), LAMBDA w : w # <<>>)                      \* split_whitespace
\* one part: [ok, amt (in 1/600000 minute), used (1 or 2 words)]
Part(ws, i) ==
  LET w == ws[i]
      nd == {p \in DOMAIN w : w[p] \notin Digits \cup {"."}}
      mid == IF nd = {} THEN 0 ELSE CHOOSE a \in nd : \A b \in nd : a <= b
      number == IF mid = 0 THEN w ELSE SubSeq(w, 1, mid - 1)
      unit == IF mid = 0 THEN (IF i + 1 <= Len(ws) THEN ws[i + 1] ELSE <<>>) ELSE SubSeq(w, mid, Len(w))
      d == Decimal(number)
  IN IF mid = 0 /\ i + 1 > Len(ws) THEN [ok |-> FALSE, big |-> FALSE]          \* MissingUnit
     ELSE IF ~d.ok \/ UnitSecs(unit) = 0 THEN [ok |-> FALSE, big |-> FALSE]
     ELSE IF d.k > 3 \/ d.a > 2000000000 \div (Pow10(3 - d.k) * UnitSecs(unit)) THEN [ok |-> FALSE, big |-> TRUE]
     ELSE [ok |-> TRUE, big |-> FALSE, amt |-> d.a * Pow10(3 - d.k) * UnitSecs(unit), used |-> IF mid = 0 THEN 2 ELSE 1]
RECURSIVE WithUnitsLoop(_, _, _)
WithUnitsLoop(ws, i, total) == IF i > Len(ws) THEN [ok |-> TRUE, big |-> FALSE, v |-> total]
                               ELSE LET p == Part(ws, i) IN
                                    IF ~p.ok THEN [ok |-> FALSE, big |-> p.big]
                                    ELSE IF total > 2000000000 - p.amt THEN [ok |-> FALSE, big |-> TRUE]
                                    ELSE WithUnitsLoop(ws, i + p.used, total + p.amt)
RoundMin(amt) == (amt + 30000) \div 60000                                     \* f64::round of a non-negative total
WithUnits(s) == LET r == WithUnitsLoop(Words(s), 1, 0) IN IF r.ok THEN [ok |-> TRUE, big |-> FALSE, v |-> RoundMin(r.v)] ELSE [ok |-> FALSE, big |-> r.big]
\* the float fallback: the whole string as a number (a sign is accepted by f64::from_str; no blanks)
Float(s) == LET neg == s # <<>> /\ Head(s) = "-"
                t == IF s # <<>> /\ Head(s) \in {"+", "-"} THEN Tail(s) ELSE s
                d == Decimal(t)
            IN IF ~d.ok THEN [ok |-> FALSE, big |-> FALSE]
               ELSE IF d.k > 3 \/ d.a > 30000 THEN [ok |-> FALSE, big |-> TRUE]
               ELSE LET m == RoundMin(d.a * Pow10(3 - d.k) * 60) IN
                    IF neg /\ m > 0 THEN [ok |-> FALSE, big |-> FALSE] ELSE [ok |-> TRUE, big |-> FALSE, v |-> m]   \* -0.4 rounds to -0, which passes `>= 0`
\* parse_time
Big == [t |-> "big"]
TimeOf(s) == IF s = <<>> THEN None
             ELSE LET c == Common(s) IN IF c.ok THEN [t |-> "minutes", n |-> NatStr(c.v)]
             ELSE LET u == WithUnits(s) IN IF u.ok THEN [t |-> "minutes", n |-> NatStr(u.v)] ELSE IF u.big THEN Big
             ELSE LET f == Float(s) IN IF f.ok THEN [t |-> "minutes", n |-> NatStr(f.v)] ELSE IF f.big THEN Big ELSE None

(* ---- value_as_locale, value_as_servings and value_as_tags on strings ------------------------------------------------ *)
TwoLetters(s) == Len(s) = 2 /\ AllIn(s, Letters)
LocaleOf(s) == LET us == {p \in DOMAIN s : s[p] = "_"} IN
               IF us = {} THEN (IF TwoLetters(s) THEN [t |-> "locale", lang |-> Str(s), dial |-> ""] ELSE None)
               ELSE LET p == CHOOSE a \in us : \A b \in us : a <= b
                        lang == SubSeq(s, 1, p - 1) dial == SubSeq(s, p + 1, Len(s))
                    IN IF TwoLetters(lang) /\ TwoLetters(dial) THEN [t |-> "locale", lang |-> Str(lang), dial |-> Str(dial)] ELSE None
\* extract_value: the leading run of ASCII letters and digits must be a u32
Extract(s) == LET na == {p \in DOMAIN s : s[p] \notin Digits \cup Letters}
                  idx == IF na = {} THEN Len(s) + 1 ELSE CHOOSE a \in na : \A b \in na : a <= b
              IN U32(SubSeq(s, 1, idx - 1))
ServingsOf(s) == LET parts == Split(s, "|")
                     vals == [i \in DOMAIN parts |-> Extract(Trim(parts[i]))]
                 IN IF \E i \in DOMAIN vals : ~vals[i].ok \/ (vals[i].ok /\ Head(Trim(parts[i])) = "+") THEN None
                    ELSE IF \E i, j \in DOMAIN vals : i # j /\ vals[i].v = vals[j].v THEN None
                    ELSE [t |-> "servings", ns |-> [i \in DOMAIN vals |-> NatStr(vals[i].v)]]
RECURSIVE Dedup(_, _)
Dedup(xs, acc) == IF xs = <<>> THEN acc
                  ELSE LET x == Head(xs) IN Dedup(Tail(xs), IF x = "" \/ \E i \in DOMAIN acc : acc[i] = x THEN acc ELSE Append(acc, x))
TagsOf(s) == LET parts == Split(s, ",") IN [t |-> "tags", ts |-> Dedup([i \in DOMAIN parts |-> Str(Trim(parts[i]))], <<>>)]

(* ---- NameAndUrl::parse and is_url ------------------------------------------------------------------------------------- *)
TrimEnd(s) == LET ps == {p \in DOMAIN s : s[p] # " "} IN IF ps = {} THEN <<>> ELSE SubSeq(s, 1, CHOOSE a \in ps : \A b \in ps : a >= b)
\* first position of the three characters "://", 0 if absent
SchemeSep(s) == LET ps == {p \in 1..(Len(s) - 2) : s[p] = ":" /\ s[p + 1] = "/" /\ s[p + 2] = "/"} IN IF ps = {} THEN 0 ELSE CHOOSE a \in ps : \A b \in ps : a <= b
IsUrl(s) == LET p == SchemeSep(s) IN
            IF p = 0 THEN FALSE
            ELSE LET scheme == SubSeq(s, 1, p - 1) rest == SubSeq(s, p + 3, Len(s))
                     sl == {q \in DOMAIN rest : rest[q] = "/"}
                     host == IF sl = {} THEN rest ELSE SubSeq(rest, 1, (CHOOSE a \in sl : \A b \in sl : a <= b) - 1)
                 IN rest # <<>> /\ AllIn(scheme, Letters) /\ host # <<>> /\ \A q \in DOMAIN host : host[q] # " "
NameUrl(name, url) == [t |-> "nameurl", name |-> Str(Trim(name)), url |-> Str(Trim(url))]
NameUrlOf(s) ==
  LET t == TrimEnd(s)
      inner == IF t # <<>> /\ t[Len(t)] = ">" THEN SubSeq(t, 1, Len(t) - 1) ELSE <<>>
      lt == {p \in DOMAIN inner : inner[p] = "<"}
      p == IF lt = {} THEN 0 ELSE CHOOSE a \in lt : \A b \in lt : a <= b
      name == IF p = 0 THEN <<>> ELSE SubSeq(inner, 1, p - 1)
      url == IF p = 0 THEN <<>> ELSE SubSeq(inner, p + 1, Len(inner))
  IN IF t # <<>> /\ t[Len(t)] = ">" /\ p # 0 /\ IsUrl(Trim(url)) /\ \A q \in DOMAIN url : url[q] \notin {"<", ">"}
     THEN NameUrl(name, url)
     ELSE IF IsUrl(s) THEN NameUrl(<<>>, s) ELSE NameUrl(s, <<>>)
=============================================================================
