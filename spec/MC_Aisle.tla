------------------------------ MODULE MC_Aisle ------------------------------
(* Generator + model checking instance of CookAisle (C11).                   *)
(* A behaviour first WRITES a file (ln = 0): either symbol by symbol over    *)
(* the format's alphabet (every string up to MaxLen), or line by line from a *)
(* pool of line shapes with LF / CRLF / missing final line ending (every     *)
(* file up to PoolLines lines); then Begin hands it to the parser machine.   *)
(* Every finished behaviour is printed as one REPLAY line: the input and the *)
(* outcome the specification predicts for it.                                *)
EXTENDS CookAisle, Json
CONSTANTS MaxLen, PoolLines
VARIABLE w           \* writer state: [mode |-> "none"|"sym"|"pool"|"closed", n |-> lines written]
mcvars == <<input, ln, st, w>>

Alphabet == {"[", "]", "|", "a", "b", " ", "LF", "CR", "/", "NBSP"}
LinePool == { <<"[","a","]">>, <<"[","b","]">>, <<" ","[","a"," ","b","]"," ">>, <<"[","]">>, <<"[","a","|","b","]">>,
              <<"a">>, <<"b">>, <<"a","|","b">>, <<" ","a"," ","|","NBSP","b","TAB">>, <<"a","|">>, <<"|">>,
              <<"E2","a">>, <<"b"," ","/","/"," ","[","a","]">>, <<"/","/","a">>, <<>>, <<"TSP","[","b","]">>,
              <<"a","/","b">>, <<"[","a","]","/","/","x">>,
              <<"A">>, <<"A","|","B">> }        \* names that differ from others only in case are different names
Endings  == { <<"LF">>, <<"CR","LF">> }

MCInit == input = <<>> /\ ln = 0 /\ st = InitSt /\ w = [mode |-> "none", n |-> 0]
AddSym  == /\ ln = 0 /\ w.mode \in {"none", "sym"} /\ Len(input) < MaxLen
           /\ \E c \in Alphabet : input' = Append(input, c)
           /\ w' = [mode |-> "sym", n |-> 0] /\ UNCHANGED <<ln, st>>
AddLine == /\ ln = 0 /\ w.mode \in {"none", "pool"} /\ w.n < PoolLines
           /\ \E l \in LinePool, e \in Endings : input' = input \o l \o e
           /\ w' = [mode |-> "pool", n |-> w.n + 1] /\ UNCHANGED <<ln, st>>
\* a last line without line ending closes the file
AddLast == /\ ln = 0 /\ w.mode \in {"none", "pool"} /\ w.n < PoolLines
           /\ \E l \in LinePool : input' = input \o l
           /\ w' = [mode |-> "closed", n |-> w.n + 1] /\ UNCHANGED <<ln, st>>
Begin   == ln = 0 /\ ln' = 1 /\ UNCHANGED <<input, st, w>>
MCNext  == AddSym \/ AddLine \/ AddLast \/ Begin \/ (Next /\ UNCHANGED w)

Pred == [st |-> st.result.st, kind |-> st.result.kind, name |-> st.result.name,
         first |-> st.result.first, second |-> st.result.second, cats |-> st.cats]
Emit == Done => PrintT(<<"REPLAY", ToJson([input |-> input, pred |-> Pred])>>)

\* Done states have no successors; everything else must be able to step (totality of the design)
NoStuck == Done \/ ENABLED MCNext
=============================================================================
