------------------------------ MODULE MC_Parser ------------------------------
(* Generator + model checking instance of CookParser.  A behaviour writes a    *)
(* body symbol by symbol between a fixed Prefix and Suffix (every string over  *)
(* Alphabet up to MaxLen), picks the parser's extension set, and then parses   *)
(* block by block.  Finished behaviours are printed with the events the        *)
(* specification predicts; the real PullParser is run on the same input.       *)
EXTENDS CookParser, Json
CONSTANTS Alphabet, MaxLen, Prefix, Suffix, ExtChoices, OsmChoices
VARIABLES ext,      \* the extension set of the parser
          osm,      \* old-style metadata allowed (no front matter)
          ptr,      \* next token to be pulled; 0 while the input is written; N + 2 when the parser returned None
          evs       \* events handed out so far
pvars == <<input, pos, toks, ext, osm, ptr, evs>>

\* values for the configuration files (a cfg file cannot write tuples or nested sets)
NoSeq == <<>>
PfxIgrBrace == <<"@", "a", "{">>
PfxCwBrace  == <<"#", "a", "{">>
PfxTmBrace  == <<"~", "a", "{">>
SfxBrace    == <<"}">>
PfxIgr      == <<"@">>
PfxCw       == <<"#">>
PfxTm       == <<"~">>
SfxName     == <<"a", "{", "}">>
SfxBraces   == <<"{", "}">>
SfxLine     == <<"LF", "a">>
BothOsm == {TRUE, FALSE}
OnlyOsm == {TRUE}
AllExt == {"MODIFIERS", "ALIAS", "ADVANCED_UNITS", "MODES", "INLINE", "RANGE", "TIMER_REQ", "INTERMEDIATE"}
ExtAll == {AllExt}
ExtAllNone == {AllExt, {}}
\* (INTERMEDIATE implies MODIFIERS: the flag of the library has both bits)
ExtMany == {AllExt, {}, AllExt \ {"ADVANCED_UNITS"}, AllExt \ {"MODIFIERS", "INTERMEDIATE"}, AllExt \ {"INTERMEDIATE"}, AllExt \ {"ALIAS", "RANGE"},
            {"MODES"}, AllExt \ {"TIMER_REQ", "MODES"}}
ExtModes == {AllExt, {}, {"MODES"}}
\* without old-style metadata there is a front matter: the recorder puts the empty one, 8 bytes, in front
Base == IF osm THEN 0 ELSE 8
X == Ctx(Prefix \o input \o Suffix, ext, osm, Base)
MCInit  == input = <<>> /\ pos = 0 /\ toks = <<>> /\ ext \in ExtChoices /\ osm \in OsmChoices /\ ptr = 0 /\ evs = <<>>
AddSym  == /\ ptr = 0 /\ Len(input) < MaxLen
           /\ \E c \in Alphabet : input' = Append(input, c)
           /\ UNCHANGED <<pos, toks, ext, osm, ptr, evs>>
Begin   == ptr = 0 /\ ptr' = 1 /\ UNCHANGED <<input, pos, toks, ext, osm, evs>>
\* one call of next_block: the events of one block are queued, or the parser is exhausted
PullBlock == /\ ptr >= 1 /\ ptr <= N(X) + 1
             /\ LET b == NextBlock(X, ptr)
                IN IF b.none THEN ptr' = N(X) + 2 /\ evs' = evs
                   ELSE ptr' = b.next /\ evs' = evs \o ParseBlock(X, b.b0, b.b1)
             /\ UNCHANGED <<input, pos, toks, ext, osm>>
MCNext  == AddSym \/ Begin \/ PullBlock
Done    == ptr = N(X) + 2
Text1   == Prefix \o input \o Suffix

\* ---- properties of the design, checked in every state ------------------------------------------
InvOrdered   == ptr >= 1 => EventsInOrder(evs, Base + Bytes(Text1))
InvBracketed == ptr >= 1 => Bracketed(evs, 1, "out")        \* every block leaves its brackets closed
InvProgress2 == ptr >= 1 => ptr <= N(X) + 2
InvFunctional2 == Done => evs = ParseDoc(Text1, ext, osm, Base)
NoStuck2     == Done \/ ENABLED MCNext
InvCovered   == Done => CoveredBySpec(X, evs)
\* diagnostics never replace a component silently: a failed component attempt leaves its marker in a text event
Emit2   == Done => PrintT(<<"REPLAY", ToJson([input |-> Text1, ext |-> ext, osm |-> osm, evs |-> evs])>>)
=============================================================================
