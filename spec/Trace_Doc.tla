------------------------------ MODULE Trace_Doc ------------------------------
(* Trace specification for the document properties (C01, C02, C06, C07, C17):  *)
(* each record is one parse of one text: what the specification predicted      *)
(* (pred: model, validity, diagnostics; present when the text came from        *)
(* CookDoc) and what CooklangParser::parse returned (obs, projected by the      *)
(* harness).  The model predicates are CookAnalysis' own.                       *)
EXTENDS CookAnalysis, Json, IOUtils
CONSTANTS Clauses
VARIABLES l
Recs == ndJsonDeserialize(IOEnv.TRACE)

HasPred(r) == "pred" \in DOMAIN r
HasModel(r) == r.obs.st = "ok" /\ r.obs.has_output
WF(r) == HasPred(r) /\ r.pred.wellformed
SetMods(tbl) == [i \in DOMAIN tbl |-> [tbl[i] EXCEPT !.mods = Range(@)]]
ErrorsOf(ds) == {i \in DOMAIN ds : ds[i].sev = "error"}
\* identification of names ignoring case as the harness computed it (unicase), for recorded models
FoldObs(r, n) == IF "folds" \in DOMAIN r /\ n \in DOMAIN r.folds THEN r.folds[n] ELSE Fold(n)

\* The class of a diagnostic is read off its message text by the recorder (a table of prefixes).  Wording is no part of any
\* property: the clauses compare severity and stage (and labels); the classes are compared as drift (ClassesAsPredicted), where
\* a message the table does not know ("Other") counts for any class.
Count(ds, d) == Cardinality({i \in DOMAIN ds : ds[i].sev = d.sev /\ ds[i].stage = d.stage /\ ds[i].class = d.class})
CountObs(ds, d) == Cardinality({i \in DOMAIN ds : ds[i].sev = d.sev /\ ds[i].stage = d.stage /\ ds[i].class \in {d.class, "Other"}})
ClassesIncluded(p, o) == \A i \in DOMAIN p : CountObs(o, p[i]) >= Count(p, p[i])
CountSS(ds, sev, stage) == Cardinality({i \in DOMAIN ds : ds[i].sev = sev /\ ds[i].stage = stage})
\* multiset inclusion of the predicted diagnostics (severity, stage) in the observed ones
DiagsIncluded(p, o) == \A sev \in {"error", "warning"}, stage \in {"parse", "analysis"} : CountSS(o, sev, stage) >= CountSS(p, sev, stage)
Touches(lbl, sp) == lbl.s <= sp.e /\ sp.s <= lbl.e

SetModel(r) == [r.obs.model EXCEPT !.igr = SetMods(@), !.cw = SetMods(@)]
Holds(c, r) ==
  CASE c = "Returns"               -> r.obs.st = "ok"
    \* ---- C01: a well-formed document parses without errors to exactly the intended recipe
    [] c = "ParsesWithoutErrors"   -> WF(r) => (HasModel(r) /\ ErrorsOf(r.obs.diags) = {})
    [] c = "Ingredients"           -> (WF(r) /\ HasModel(r)) => SetMods(r.obs.model.igr) = SetMods(r.pred.model.igr)
    [] c = "Cookware"              -> (WF(r) /\ HasModel(r)) => SetMods(r.obs.model.cw) = SetMods(r.pred.model.cw)
    [] c = "Timers"                -> (WF(r) /\ HasModel(r)) => r.obs.model.tm = r.pred.model.tm
    [] c = "InlineQuantities"      -> (WF(r) /\ HasModel(r)) => r.obs.model.inl = r.pred.model.inl
    [] c = "Sections"              -> (WF(r) /\ HasModel(r)) => r.obs.model.secs = r.pred.model.secs
    [] c = "Metadata"              -> (WF(r) /\ HasModel(r)) => r.obs.model.meta = r.pred.model.meta
    [] c = "Servings"              -> (WF(r) /\ HasModel(r)) => r.obs.model.servings = r.pred.model.servings
    [] c = "ReadingAsSpecified"    -> (HasPred(r) /\ HasModel(r) /\ ~r.pred.failed) =>
                                         [r.obs.model EXCEPT !.igr = SetMods(@), !.cw = SetMods(@)] = [r.pred.model EXCEPT !.igr = SetMods(@), !.cw = SetMods(@)]
    \* ---- C06: whatever comes back is referentially consistent, even alongside errors
    [] c = "ItemsIndexExisting"    -> HasModel(r) => ItemsIndexExisting(r.obs.model)
    [] c = "ComponentsInDocOrder"  -> HasModel(r) => ComponentsInDocOrder(r.obs.model)
    [] c = "RefsPointBackToDefs"   -> HasModel(r) => RefsPointBackToDefs(r.obs.model)
    [] c = "BackLinksExactlyOnce"  -> HasModel(r) => BackLinksExactlyOnce(r.obs.model)
    [] c = "StepRefsEarlierSameSection" -> HasModel(r) => StepRefsEarlierSameSection(r.obs.model)
    [] c = "SectionRefsEarlier"    -> HasModel(r) => SectionRefsEarlier(r.obs.model)
    [] c = "StepNumbering"         -> HasModel(r) => StepNumbering(r.obs.model)
    [] c = "NothingEmpty"          -> HasModel(r) => NothingEmpty(r.obs.model)
    [] c = "TimersNonEmpty"        -> HasModel(r) => TimersNonEmpty(r.obs.model)
    [] c = "ValidRefIffModifier"   -> (HasModel(r) /\ r.obs.valid) => ValidRefIffModifier(SetModel(r))
    [] c = "ValidSameFoldedName"   -> (HasModel(r) /\ r.obs.valid) => ValidSameFoldedName(r.obs.model, LAMBDA n : FoldObs(r, n))
    [] c = "CollectorSteps"       -> (r.obs.st = "ok" /\ "snaps" \in DOMAIN r.obs) => CollectorSteps(r.obs.snaps)
    \* ---- C07: diagnostics
    \* a well-formed document: no error, and no more warnings than the deprecation notices the specification predicts
    \* (all predicted diagnostics of a well-formed document are that notice)
    [] c = "NoSpuriousDiagnostics" -> (WF(r) /\ r.obs.st = "ok") =>
                                         /\ ErrorsOf(r.obs.diags) = {}
                                         /\ \A stage \in {"parse", "analysis"} : CountSS(r.obs.diags, "warning", stage) <= CountSS(r.pred.diags, "warning", stage)
    [] c = "ValidIffOutputAndNoError" -> r.obs.st = "ok" => (r.obs.valid <=> (r.obs.has_output /\ ErrorsOf(r.obs.diags) = {}))
    [] c = "ParseErrorSuppresses"  -> (r.obs.st = "ok" /\ \E i \in ErrorsOf(r.obs.diags) : r.obs.diags[i].stage = "parse")
                                         => (~r.obs.has_output /\ \A i \in DOMAIN r.obs.diags : r.obs.diags[i].stage = "parse")
    [] c = "AnalysisErrorKeepsOutput" -> (r.obs.st = "ok" /\ \A i \in ErrorsOf(r.obs.diags) : r.obs.diags[i].stage = "analysis") => r.obs.has_output
    \* (what else is reported once an invalid construct was injected depends on how the parser recovers, which no property fixes:
    \* those documents are judged by DefectReported and the validity clauses; their full list is drift, ClassesAsPredicted)
    [] c = "PredictedDiagnostics"  -> (HasPred(r) /\ r.obs.st = "ok" /\ ~r.pred.failed /\ "defect" \notin DOMAIN r) => DiagsIncluded(r.pred.diags, r.obs.diags)
    [] c = "DefectReported"        -> (HasPred(r) /\ "defect" \in DOMAIN r /\ r.obs.st = "ok") =>
                                         \E i \in DOMAIN r.obs.diags :
                                            /\ r.obs.diags[i].sev = r.defect.sev /\ r.obs.diags[i].stage = r.defect.stage
                                            /\ r.obs.diags[i].labels # <<>> /\ Touches(r.obs.diags[i].labels[1], r.defect)
    [] c = "ValidityAsPredicted"   -> (HasPred(r) /\ r.obs.st = "ok") => r.obs.valid = r.pred.valid
\* model agreement on documents that are not well-formed is conformance detail (drift), not a clause
Details == {"ModelAsPredicted", "ClassesAsPredicted"}
Agrees(d, r) ==
  CASE d = "ModelAsPredicted" -> (HasPred(r) /\ HasModel(r) /\ ~r.pred.wellformed /\ ~r.pred.failed) =>
                                    [r.obs.model EXCEPT !.igr = SetMods(@), !.cw = SetMods(@)]
                                    = [r.pred.model EXCEPT !.igr = SetMods(@), !.cw = SetMods(@)]
    [] d = "ClassesAsPredicted" -> (HasPred(r) /\ r.obs.st = "ok" /\ ~r.pred.failed) => ClassesIncluded(r.pred.diags, r.obs.diags)
Failed(r) == {c \in Clauses : ~Holds(c, r)}
Drift(r)  == {d \in Details : ~Agrees(d, r)}
TInit == l = 1
TNext == /\ l <= Len(Recs)
         /\ LET r == Recs[l] f == Failed(r) d == Drift(r) IN
              /\ IF f = {} THEN TRUE ELSE PrintT(<<"BAD", l, f>>)
              /\ IF d = {} THEN TRUE ELSE PrintT(<<"NOTE", l, d>>)
         /\ IF l = Len(Recs) THEN PrintT(<<"CONSUMED", l>>) ELSE TRUE
         /\ l' = l + 1
=============================================================================
