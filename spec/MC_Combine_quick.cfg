CONSTANTS
  MaxLen = 3
  MaxSel = 3
INIT Init
NEXT Next
INVARIANTS InvOrderIndependent Emit
CHECK_DEADLOCK FALSE
