------------------------------- MODULE CookGroup -------------------------------
(***************************************************************************)
(* M7: GroupedQuantity (src/quantity.rs: add / merge) over a MODEL         *)
(* converter whose ratios are small integers, so that every total is an    *)
(* exact integer: amounts are kept in quarter units of the base unit of    *)
(* their physical quantity.  A quantity is                                 *)
(*   [t |-> "num" | "range" | "text", lo, hi (value x 4), unit, txt].      *)
(* The buckets follow the code: text values and failed adds go to `other`, *)
(* unitless values to `no_unit`, known units to one total per physical     *)
(* quantity (kept in the unit that came first), unknown units to one total *)
(* per unit text.  C10: nothing is lost or invented (Conservation).        *)
(***************************************************************************)
EXTENDS Naturals, Integers, Sequences, FiniteSets, TLC

PQ(u) == CASE u \in {"ml", "l", "tsp", "cup", "cups"} -> "volume" [] u \in {"g", "kg", "oz", "lb"} -> "mass"
           [] u \in {"s", "min", "h"} -> "time" [] OTHER -> "unknown"
Ratio(u) == CASE u = "l" -> 1000 [] u = "tsp" -> 5 [] u \in {"cup", "cups"} -> 240 [] u = "kg" -> 1000 [] u = "oz" -> 28 [] u = "lb" -> 454
              [] u = "min" -> 60 [] u = "h" -> 3600 [] OTHER -> 1
Known(u) == u # "" /\ PQ(u) # "unknown"
ClassOf(q) == IF q.t = "text" THEN "text" ELSE IF q.unit = "" THEN "none" ELSE IF Known(q.unit) THEN "q:" \o PQ(q.unit) ELSE "u:" \o q.unit
Mul(q) == IF Known(q.unit) THEN Ratio(q.unit) ELSE 1
Range(f) == {f[i] : i \in DOMAIN f}

\* ---- totals of a sequence of quantities, per class (the conserved observable) -------------------------------------
RECURSIVE SumLo(_, _, _), SumHi(_, _, _)
SumLo(qs, cls, i) == IF i > Len(qs) THEN 0 ELSE (IF ClassOf(qs[i]) = cls THEN qs[i].lo * Mul(qs[i]) ELSE 0) + SumLo(qs, cls, i + 1)
SumHi(qs, cls, i) == IF i > Len(qs) THEN 0 ELSE (IF ClassOf(qs[i]) = cls THEN qs[i].hi * Mul(qs[i]) ELSE 0) + SumHi(qs, cls, i + 1)
NumClasses(qs) == {ClassOf(qs[i]) : i \in DOMAIN qs} \ {"text"}
ClassTotals(qs) == { [cls |-> c, lo |-> SumLo(qs, c, 1), hi |-> SumHi(qs, c, 1)] : c \in NumClasses(qs) }
TextOf(q) == [txt |-> q.txt, unit |-> q.unit]
TextBag(qs) == LET ts == {TextOf(qs[i]) : i \in {k \in DOMAIN qs : qs[k].t = "text"}}
               IN { [txt |-> x.txt, unit |-> x.unit, n |-> Cardinality({k \in DOMAIN qs : qs[k].t = "text" /\ TextOf(qs[k]) = x})] : x \in ts }

\* ---- the group ----------------------------------------------------------------------------------------------------------
None == [has |-> FALSE, unit |-> "", lo |-> 0, hi |-> 0]
Empty == [known |-> [p \in {"volume", "mass", "time"} |-> None], unknown |-> {}, noUnit |-> None, other |-> <<>>]
AddTo(b, q, unit) == IF b.has THEN [b EXCEPT !.lo = @ + q.lo * Mul(q), !.hi = @ + q.hi * Mul(q)]
                     ELSE [has |-> TRUE, unit |-> unit, lo |-> q.lo * Mul(q), hi |-> q.hi * Mul(q)]
Add(g, q) ==
  IF q.t = "text" THEN [g EXCEPT !.other = Append(@, q)]
  ELSE IF q.unit = "" THEN [g EXCEPT !.noUnit = AddTo(@, q, "")]
  ELSE IF Known(q.unit) THEN [g EXCEPT !.known[PQ(q.unit)] = AddTo(@, q, q.unit)]
  ELSE IF \E b \in g.unknown : b.unit = q.unit
       THEN [g EXCEPT !.unknown = {IF b.unit = q.unit THEN AddTo(b, q, q.unit) ELSE b : b \in g.unknown}]
       ELSE [g EXCEPT !.unknown = @ \cup {AddTo(None, q, q.unit)}]
\* the quantities a group yields when iterated (what merge feeds to add), as quantities again
AsQ(b, known) == [t |-> IF b.lo = b.hi THEN "num" ELSE "range", lo |-> b.lo, hi |-> b.hi, unit |-> b.unit, txt |-> "", base |-> known]
GroupTotals(g) == { [cls |-> "q:" \o p, lo |-> g.known[p].lo, hi |-> g.known[p].hi] : p \in {x \in DOMAIN g.known : g.known[x].has} }
                  \cup { [cls |-> "u:" \o b.unit, lo |-> b.lo, hi |-> b.hi] : b \in g.unknown }
                  \cup (IF g.noUnit.has THEN {[cls |-> "none", lo |-> g.noUnit.lo, hi |-> g.noUnit.hi]} ELSE {})
GroupTexts(g) == TextBag(g.other)
\* merging adds every total and every text of the other group
Merge(g, h) == [known |-> [p \in DOMAIN g.known |-> IF h.known[p].has THEN (IF g.known[p].has THEN [g.known[p] EXCEPT !.lo = @ + h.known[p].lo, !.hi = @ + h.known[p].hi] ELSE h.known[p]) ELSE g.known[p]],
                unknown |-> {IF \E c \in h.unknown : c.unit = b.unit THEN LET c == CHOOSE c \in h.unknown : c.unit = b.unit IN [b EXCEPT !.lo = @ + c.lo, !.hi = @ + c.hi] ELSE b : b \in g.unknown}
                            \cup {c \in h.unknown : ~\E b \in g.unknown : b.unit = c.unit},
                noUnit |-> IF h.noUnit.has THEN (IF g.noUnit.has THEN [g.noUnit EXCEPT !.lo = @ + h.noUnit.lo, !.hi = @ + h.noUnit.hi] ELSE h.noUnit) ELSE g.noUnit,
                other |-> g.other \o h.other]

\* C10 for one group against the quantities that went into it
Conserves(g, inputs) == GroupTotals(g) = ClassTotals(inputs) /\ GroupTexts(g) = TextBag(inputs)
=============================================================================
