CONSTANTS
  Alphabet <- Notes
  MaxLen = 5
INIT MCInit
NEXT MCNext
INVARIANTS InvPrefixTiles InvProgress InvFunctional InvNewline NoStuck Emit
CHECK_DEADLOCK FALSE
