CONSTANTS
  Alphabet = {"@", "#", "~", "{", "}", "(", ")", "%", "|", "=", "&", "a", "1", " "}
  MaxLen = 5
  Prefix <- NoSeq
  Suffix <- SfxLine
  ExtChoices <- ExtAllNone
  OsmChoices <- OnlyOsm
INIT MCInit
NEXT MCNext
INVARIANTS InvOrdered InvBracketed InvProgress2 InvFunctional2 NoStuck2 InvCovered Emit2
CHECK_DEADLOCK FALSE
