#!/usr/bin/env python3
"""keep_seed.py <seed-dir> <property> <detected: yes|no|partial> <clauses/notes>
Archives a confirmed seeded change under /verif/seeded/<id>/ (patch.diff, demo.rs, meta.json)."""
import json, os, shutil, sys
src, prop, detected, notes = sys.argv[1], sys.argv[2], sys.argv[3], sys.argv[4]
sid = os.path.basename(src.rstrip("/")).replace("seeded-", "")
dst = f"/verif/seeded/{sid}"
os.makedirs(dst, exist_ok=True)
for f in ("patch.diff", "demo.rs"):
    shutil.copy(os.path.join(src, f), dst)
m = json.load(open(os.path.join(src, "meta.json")))
m["property"] = prop
m["confirmed"] = ["tools/verify_seed.sh: demo passes on the clean tree; with the patch the existing suite passes and the demo fails"]
m["check_run"] = f"tools/run_seed.sh {dst} {prop}"
m["detected_by_check"] = detected
m["detection_notes"] = notes
json.dump(m, open(os.path.join(dst, "meta.json"), "w"), indent=1)
print("kept", dst)
