#!/usr/bin/env python3
import json, re, sys
obs, judge = sys.argv[1], sys.argv[2]
limit = int(sys.argv[3]) if len(sys.argv) > 3 else 8
kind = sys.argv[4] if len(sys.argv) > 4 else "BAD"
recs = [json.loads(l) for l in open(obs)]
M = {'LF': '\n', 'CR': '\r', 'E2': 'é', 'E4': '😀', 'BS': '\\', 'DEG': 'º', 'QUOTE': '"', 'TAB': '\t', 'NBSP': ' '}
seen = set()
for l in open(judge):
    m = re.match(r'<<"%s", (\d+), \{(.*)\}>>' % kind, l)
    if not m: continue
    r = recs[int(m.group(1)) - 1]
    names = m.group(2)
    if names in seen and len(seen) > 3: continue
    seen.add(names)
    print("=====", names, "ext", r.get("ext"), r.get("conv"))
    t = r["text"]
    print(''.join(M.get(c, c) for c in t) if isinstance(t, list) else t)
    p = r.get("pred", {}); o = r["obs"]
    print("pred diags:", [(d['sev'], d['stage'], d['class']) for d in p.get("diags", [])], "valid", p.get("valid"), "wf", p.get("wellformed"))
    print("obs  diags:", [(d['sev'], d['stage'], d['class']) for d in o.get("diags", [])], "valid", o.get("valid"), o.get("st"), o.get("sig", ""))
    if "model" in o and "model" in p:
        for k in p["model"]:
            if p["model"][k] != o["model"].get(k):
                print("  diff", k, "\n    pred:", json.dumps(p["model"][k])[:700], "\n    obs: ", json.dumps(o["model"].get(k))[:700])
    limit -= 1
    if limit <= 0: break
