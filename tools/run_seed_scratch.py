#!/usr/bin/env python3
"""run_seed_scratch.py <seed-dir> <prop> [tier]: runs a property check against a seeded change WITHOUT touching /repo:
the patch is applied to the scratch worktree /tmp/wt-verify, a copy of the harness (/tmp/harness2, path dependency on
that worktree) is rebuilt, and the check runs with that binary; evidence and replay files go to /tmp/scratch-evidence."""
import importlib, os, subprocess, sys
ROOT = os.environ.get('VERIF_ROOT', '/verif')     # a development copy of /verif can be exercised the same way
sys.path.insert(0, ROOT)
from vlib import core
seed, prop = sys.argv[1], sys.argv[2]
tier = sys.argv[3] if len(sys.argv) > 3 else "quick"
SID = os.environ.get("SCRATCH_ID", "")      # a second pair of scratch directories can work in parallel
WT, H2 = "/tmp/wt-verify" + SID, "/tmp/harness2" + SID
os.environ["COOKLANG_REPO"] = WT      # the recorder compares Converter::default() with THIS tree's units.toml
if not os.path.isdir(WT):
    subprocess.run(["git", "-C", "/repo", "worktree", "add", "--detach", WT, "HEAD", "-f"], check=True, capture_output=True)
subprocess.run(["git", "-C", WT, "checkout", "-q", "--detach", subprocess.run(["git", "-C", "/repo", "rev-parse", "HEAD"], capture_output=True, text=True).stdout.strip()])
subprocess.run(["git", "-C", WT, "checkout", "--", "."])
subprocess.run(f"mkdir -p {H2} && rsync -a --exclude target {ROOT}/harness/ {H2}/ && sed -i 's#/repo#{WT}#g' {H2}/cookverif/Cargo.toml {H2}/ffi_shim/Cargo.toml", shell=True, check=True)
a = subprocess.run(["git", "-C", WT, "apply", os.path.join(seed, "patch.diff")], capture_output=True, text=True)
if a.returncode:
    print("PATCH DOES NOT APPLY", a.stderr[:300]); sys.exit(9)
try:
    b = subprocess.run(f"cd {H2} && cargo build --offline -q 2>&1 | grep -E '^error' -A8 | head -30", shell=True, capture_output=True, text=True)
    if b.stdout.strip():
        print("BUILD FAILED", b.stdout); sys.exit(9)
    core.BIN = f"{H2}/target/debug/cookverif"
    core.build_harness = lambda: core.BIN
    core.EVIDENCE = "/tmp/scratch-evidence" + SID; core.REPLAYS = core.EVIDENCE + "/replays"
    sys.argv = ["check"]
    import runpy
    chk = runpy.run_path(ROOT + "/check", run_name="chk")
    mod, fn = chk["PROPS"][prop]
    m = importlib.import_module(mod)
    ctx = core.Ctx(prop, tier, int(os.environ.get("VERIF_SEED", "20261003")))
    getattr(m, fn)(ctx)
    rc = ctx.finish()
    print("exit", rc)
finally:
    subprocess.run(["git", "-C", WT, "checkout", "--", "."])
