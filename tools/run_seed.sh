#!/bin/bash
# run_seed.sh <seed-dir> <prop> [tier]: applies a seeded change to /repo, runs the check, reverts.
d=$1; p=$2; tier=${3:-quick}
cd /repo && git apply $d/patch.diff || exit 9
cd /verif && ./check $p --tier $tier 2>&1 | grep -E "VIOLATION|KNOWN|TOOL-ERROR|^\[$p\]" | cut -c1-400
git -C /repo checkout -- .
