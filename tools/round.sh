#!/bin/bash
# round.sh <seed-id>...: verify (tools/verify_seed.sh) and scratch-check (tools/run_seed_scratch.py) seeds found in /tmp/seeded-<id>
for s in "$@"; do
  p=${s:0:3}
  echo "######## $s"
  tools/verify_seed.sh /tmp/seeded-$s 2>&1 | grep -E "^==|^test result|DOES NOT" | tr '\n' ' ' | sed 's/== /\n  == /g'; echo
  python3 tools/run_seed_scratch.py /tmp/seeded-$s $p 2>&1 | grep -E "VIOLATION|KNOWN|^\[$p\]|^exit|PATCH|BUILD|Traceback|Error" | cut -c1-500
done
