#!/bin/bash
cd /verif
for p in "$@"; do
  /usr/bin/time -f "maxrss=%MkB" ./check $p --tier thorough > work/thorough_$p.full.log 2>&1
  echo "exit-status $p $?"; grep -E "^\[C|VIOLATION|KNOWN|rror|maxrss" work/thorough_$p.full.log | tail -5 | cut -c1-300
done
