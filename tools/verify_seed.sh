#!/bin/bash
# verify_seed.sh <seed-dir> : confirms a seeded change in a scratch worktree:
#  clean tree: demo passes; with patch: compiles, existing suite passes, demo fails.
# The worktree /tmp/wt-verify is kept between calls for its build cache; remove it with
#   git -C /repo worktree remove --force /tmp/wt-verify
set -u
d=$1
wt=/tmp/wt-verify${SCRATCH_ID:-}
if [ ! -d $wt ]; then git -C /repo worktree add --detach $wt HEAD -f >/dev/null 2>&1; fi
cd $wt && git checkout -q --detach $(git -C /repo rev-parse HEAD) 2>/dev/null; git checkout -- . ; git clean -fdq tests bindings/tests 2>/dev/null
loc=$(python3 -c "import json;print(json.load(open('$d/meta.json')).get('demo_location','tests/'))" 2>/dev/null || echo tests/)
case "$loc" in *bindings*) demodir=bindings/tests; pkg="-p cooklang-bindings";; *) demodir=tests; pkg="-p cooklang";; esac
mkdir -p $demodir
name=seeddemo_$(basename $d | tr 'A-Z' 'a-z')
cp $d/demo.rs $demodir/$name.rs
echo "== clean tree: demo"; cargo test --offline $pkg --test $name 2>&1 | grep -E "^test result|error(\[|:)" | head -5
rm $demodir/$name.rs
git apply $d/patch.diff || { echo "PATCH DOES NOT APPLY"; exit 1; }
echo "== patched: existing suite"; cargo test --workspace --offline 2>&1 | grep -E "^test result|error(\[|:)|FAILED" | sort | uniq -c | head -8
cp $d/demo.rs $demodir/$name.rs
echo "== patched: demo"; cargo test --offline $pkg --test $name 2>&1 | grep -E "^test result|error(\[|:)" | head -5
rm $demodir/$name.rs; git checkout -- .
