#!/bin/bash
# run_stored.sh <scratch-id> <seed-id>... : every named stored change through its property's quick check on a scratch worktree
SID=$1; shift
for s in "$@"; do p=${s:0:3}; echo "#### $s"; (cd /verif && SCRATCH_ID=$SID python3 tools/run_seed_scratch.py /verif/seeded/$s $p 2>&1 | grep -E "^\[C|^exit|PATCH|BUILD|Traceback" | cut -c1-300 | head -4); done
