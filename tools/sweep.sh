#!/bin/bash
# work/sweep.sh <seeds...> : every quick check under each seed ("d" = default seed)
cd /verif
for s in "$@"; do
  for p in C01 C02 C03 C04 C05 C06 C07 C08 C09 C10 C11 C12 C13 C14 C15 C16 C17 C18 C19; do
    if [ "$s" = d ]; then ./check $p --tier quick 2>&1 | grep -E "^\[C|VIOLATION|KNOWN|Traceback|rror" | cut -c1-300
    else VERIF_SEED=$s ./check $p --tier quick 2>&1 | grep -E "^\[C|VIOLATION|KNOWN|Traceback|rror" | cut -c1-300; fi
    echo "exit-status $p seed=$s ${PIPESTATUS[0]}"
  done
done
