"""C08: scaling multiplies exactly the scalable amounts and nothing else."""
import os
import random

from . import core
from .p_doc import gen_docs, text_of


def check_c08(ctx):
    core.build_harness()
    quick = ctx.tier == "quick"
    n = 600 if quick else 10000
    docs = gen_docs(ctx, "MC_Doc_sim_ext.cfg", simulate=n) + gen_docs(ctx, "MC_Doc_sim_canonb.cfg", simulate=n // 2) \
        + gen_docs(ctx, "MC_Doc_sim_extempty.cfg", simulate=n // 3) + gen_docs(ctx, "MC_Doc_ref3s.cfg", max_n=3000 if quick else 60000)
    docs = [d for d in docs if d["pred"]["valid"]]
    # the standard definitions of the specification (CookConvert!StdDefs) measure the amounts, not the library's own ratios
    import json
    rc = core.run_tlc(ctx, "MC_Convert", "MC_Convert.cfg", workers=8, timeout=3000, want_replay=False)
    std = None
    for line in rc.printed:
        if line.startswith('<<"STD", '):
            std = json.loads(json.loads(line[len('<<"STD", '):].rstrip()[:-2]))
    if std is None:
        raise core.ToolError("MC_Convert did not print the standard definitions")
    pstd = os.path.join(ctx.work, "std.json")
    json.dump(std, open(pstd, "w"))
    # units the walks do not use: SI-prefixed ones, whose ratios the library derives
    allext = ["MODIFIERS", "ALIAS", "ADVANCED_UNITS", "MODES", "INLINE", "RANGE", "TIMER_REQ", "INTERMEDIATE"]
    for u in ["dl", "cl", "dag", "dal", "hg", "mg", "dm", "km", "ml", "kg", "fl oz", "pint", "lb", "tbsp", "cup", "ft", "oz", "tsp", "gal"]:
        for v in ["2", "=2", "1-3", "0.5", "1", "=0.07"]:
            docs.append(dict(text=f"@x{{{v}%{u}}} and @y{{3%{u}}}\n", ext=allext, conv="bundled",
                             pred=dict(valid=True, model=dict(igr=[dict(q=dict(t="q", fixed=v.startswith("="))), dict(q=dict(t="q", fixed=False))],
                                                              cw=[], tm=[], servings=[]))))
    # timers with and without a duration next to named ones, under the canonical parser (a timer may lack its time there)
    for t, tm in [("~rest{} then ~{5%min} and ~egg{3%minutes}\n", [dict(q=dict(t="none")), dict(q=dict(t="q", fixed=True)), dict(q=dict(t="q", fixed=True))]),
                  ("~proof{} @a{1} #p{2}\n", [dict(q=dict(t="none"))])]:
        docs.append(dict(text=t, ext=[], conv="bundled",
                         pred=dict(valid=True, model=dict(igr=[dict(q=dict(t="q", fixed=False))] if "@a" in t else [],
                                                          cw=[dict(q=dict(t="q", fixed=True))] if "#p" in t else [], tm=tm, servings=[]))))
    rnd = random.Random(ctx.seed)
    factors = ["0.3333333333333333", "0.5", "1", "1.5", "2", "10", "0.07", "0.013"] + ([] if quick else [repr(rnd.uniform(0.01, 50)) for _ in range(6)] + ["1e-3", "1e6"])
    pin = os.path.join(ctx.work, "s_in.ndjson")
    pout = os.path.join(ctx.work, "s_obs.ndjson")
    core.write_ndjson(pin, docs)
    core.run_harness(ctx, ["scale", "--in", pin, "--out", pout, "--factors", ",".join(factors), "--std", pstd])
    obs = core.read_ndjson(pout)
    nrec, bad, _ = core.run_judge(ctx, "Trace_Scale", pout)
    bad.sort(key=lambda b: len(obs[b[0] - 1]["text"]))
    for line, names in bad:
        x = obs[line - 1]
        for c in names:
            ctx.violation(c, f"C08 clause {c}: {x['text'][:160]!r} scaled by {x['factor']} ({x['conv']}): "
                             f"ingredients {x['obs'].get('igr')} flags {[(k, x['obs'].get(k)) for k in ('rest_unchanged', 'default_verbatim', 'servings_equiv', 'base_used')]}"[:700],
                          dict(kind="scale", clause=c, text=x["text"], ext=x["ext"], conv=x["conv"], factor=x["factor"], obs=x["obs"]))
    ctx.evaluations = len(obs)
    ctx.nontrivial = sum(1 for x in obs if x["obs"].get("st") == "ok" and any(i["outcome"] == "scaled" for i in x["obs"]["igr"]))
    ctx.rule = ("valid CookDoc recipes (random walks under the extended parser with the bundled and the empty converter, the "
                "canonical parser, and the 3-component reference kernel: every value kind x {locked, unlocked} x {known, unknown, "
                "no unit} x {definition, reference}, cookware, timers, inline quantities, text values, servings declared as a "
                "number, a |-list, with a unit, or not at all) x factors {1/3, 1/2, 1, 3/2, 2, 10, 0.07, 0.013} (thorough: + random and extreme "
                "factors); per component the outcome and the physical amount before/after, everything else compared through the "
                "projection, default_scale, and scale_to_servings(1, 3, 7) against scale(n / first declared servings of the "
                "specification's prediction). non-trivial = (recipe, factor) pairs with at least one scaled ingredient")
    for x in obs[:2]:
        ctx.sample(dict(text=x["text"][:200], factor=x["factor"], ingredients=x["obs"].get("igr")))
    ctx.assumptions = ["TLC and the CommunityModules JSON reader are trusted",
                       "physical amounts (value x unit ratio, bare value for unknown units) are compared in f64 with 1e-9 relative tolerance by the harness"]


def replay_c08(ctx, case):
    core.build_harness()
    c = case["case"]
    print("re-running C08; failing case:", c["text"][:300], c["factor"])
    check_c08(ctx)
    return ctx.finish()
