"""Regenerates MANIFEST.json from the table below (python3 -m vlib.manifest_gen)."""
import json
import os

ROOT = os.path.dirname(os.path.dirname(os.path.abspath(__file__)))
ALL = ["C%02d" % i for i in range(1, 20)]

PARSE_NOTE = ("Trusted: TLC, the JSON reader, the recorder's verbatim copy of spans. Exhaustive only up to the stated string "
              "length; longer inputs are the repository's own recipes and seeded random splices.")

DOC_NOTE = ("Trusted: TLC, the JSON reader, the projection (harness/cookverif/src/project.rs). Kernels are exhaustive only "
            "inside their pools/bounds; the full vocabulary is covered by seeded random walks. Step text is compared up to runs of blanks.")

CHECKS = {
    "C01": dict(
        text="The documented language is specified as a generator (spec/CookDoc.tla) coupled to a transcription of the "
             "analysis pass (spec/CookAnalysis.tla): each writing action appends one documented spelling of a construct and "
             "feeds the corresponding event to the analysis model, so every finished behaviour carries the text and the "
             "recipe model it must parse to. TLC enumerates kernels exhaustively (reference resolution for ingredients and "
             "cookware in all mode pairs, structure with sections/paragraphs/intermediate references, mode switches) and "
             "random-walks the full vocabulary with random spelling, under the canonical and the extended parser. Each "
             "document is parsed by the real library and TLC judges the projected result (spec/Trace_Doc.tla): no error, "
             "and ingredients, cookware, timers, inline quantities, sections/steps/text/numbers, metadata and servings "
             "equal to the prediction; each well-formed random document is judged again in every respelling the generator knows (comments, wraps and blanks between and inside names, CRLF, blank lines, fences) against the same prediction. The parser itself is also specified as a parser (spec/CookParser.tla, a transcription of src/parser over the tokens of CookLexer; TLC enumerates every string up to a bound over ten kernel alphabets x extension sets, checks the design invariants and prints the predicted events; for whole documents TLC lexes and parses the recorded text itself) and TLC judges the real PullParser events against it (spec/Trace_Parser.tla): clause RecipeReadAsSpecified - an input the specification reads without a diagnostic must be read exactly so (what the events say, not where).",
        design="6 (C01), 3.4, 3.5", technique="TLA+ generator+analysis model, TLC exhaustive kernels and simulation, replay into the parser, trace validation",
        note=DOC_NOTE),
    "C02": dict(
        text="CookDoc separates the syntax that is written (Syntax) from the extensions the parser has on (Ext); CookAnalysis "
             "and the reading rules of CookDoc are parameterised by Ext. Core-syntax documents (the generator records which of "
             "the reinterpreted constructs each document uses; those using none are kept) are parsed under all 192 closed "
             "subsets of the eight flags: TLC judges every parse equal to the predicted recipe and error free "
             "(spec/Trace_Doc.tla) and the serde_json images of one document equal across subsets (spec/Trace_Subsets.tla). "
             "Conversely documents using exactly one extension's syntax (alias, range, unit without %, bracketed key, inline "
             "quantity, timer without duration, intermediate reference) are parsed under every subset lacking it and must "
             "equal the core reading the specification predicts with that extension off; hand-written families add names with one, two, leading and trailing pipes, bracketed keys (known, unknown, with bad values), ranges with units and modifier characters.",
        design="6 (C02)", technique="TLA+ generator with Syntax/Ext split + TLC simulation + replay under all extension subsets + trace validation",
        note=DOC_NOTE),
    "C03": dict(
        text="The public API is specified as a typestate protocol (spec/CookApi.tla: parse -> result -> scalable -> scaled, "
             "with the consumers each state allows); TLC enumerates every program of the protocol up to a call bound and "
             "checks the once-only scaling invariants. Programs (three standard ones covering every consumer, plus the "
             "TLC-generated ones in rotation) are replayed on the exhaustive short-string corpus of MC_Lexer, the "
             "repository's recipes, random splices, fence/front-matter, repetition and boundary-metadata families, under "
             "{none, all, compat} x {empty, bundled}. TLC judges each recorded call sequence against the protocol "
             "(spec/Trace_Api.tla): every call must be enabled and must RETURN (a panic, failed assertion, overflow or "
             "watchdog timeout has no transition), and each raw event stream must obey the event grammar. The inputs of the parser kernels (spec/MC_Parser.tla: components, quantities, modifiers, blocks, escapes, path-like names) run too: the pull parser and build_ast under the kernels' extension sets (judged by spec/Trace_Parser.tla) and the API programs under six extension subsets that switch single gates. Every program also runs on amounts at the edges of f64 / u32 in every unit of an extreme converter (ratios 1e300 and 1e-300, fractions everywhere with the widest limits, offsets), on CookDoc's generated documents and on small documents carrying a byte-order mark, zero-width / directional marks, NEL, LS, VT, FF or NUL.",
        design="6 (C03), 3.11", technique="TLA+ API typestate model + TLC-generated call programs replayed on exhaustive corpora + trace validation",
        note="Trusted: TLC, catch_unwind sees every panic (debug assertions and overflow checks on), 60 s watchdog on the call sequences of one input = hang. "
             "Exhaustive only up to the stated string length."),
    "C04": dict(
        text="The lexer is specified as a token-at-a-time machine (spec/CookLexer.tla); TLC explores it exhaustively over "
             "every string of the 35-symbol token alphabet up to length 3 (4-5 over a reduced alphabet), checking that "
             "tokens tile the input. Its finished behaviours are the corpus fed to the real lexer hook, PullParser, "
             "analysis report and SourceReport::write; TLC then judges every recorded execution (spec/Trace_Parse.tla, "
             "predicates of spec/CookSpans.tla): every span, "
             "fragment and label in bounds and on character boundaries, fragments equal the input slice, events ordered, "
             "report renders. Token kinds and the tiling of the input by the tokens (hook H1) are compared with the model's prediction as drift. The parser itself is also specified as a parser (spec/CookParser.tla, a transcription of src/parser over the tokens of CookLexer; TLC enumerates every string up to a bound over ten kernel alphabets x extension sets, checks the design invariants and prints the predicted events; for whole documents TLC lexes and parses the recorded text itself) and TLC judges the real PullParser events against it (spec/Trace_Parser.tla): clauses EventsLocatedInOrder, EventsBracketed on the recorded events; exact equality of every span and label with the specification is reported as drift. The inputs of the parser kernels also go through the span recorder under extension subsets that switch single gates (quantity value / unit, modifier, alias and note spans have their own arithmetic). A family of metadata with located diagnostics joins the corpus: offending front-matter keys behind 0..4 lines ending in 1..4-byte characters with LF and CRLF, and blank-only / padded values of every checked key.",
        design="6 (C04), 3.2", technique="TLA+ lexer model + TLC exhaustive short-string generation + trace validation of recorded spans",
        note=PARSE_NOTE),
    "C05": dict(
        text="Same corpus as C04 plus `---` fence lines at every line position and front-matter documents with LF/CRLF/no "
             "final newline. TLC judges each recorded event stream with Covered (spec/CookSpans.tla): the documented front "
             "matter split and comment syntax are written in TLA+ independently of the implementation, and every letter "
             "or digit outside comments must lie inside some event span whenever the stream has no error event. The inputs of the parser kernels (spec/MC_Parser.tla alphabets, enumerated in Python from the same table) and two narrow lexer alphabets (comment terminators behind dash runs; what may follow a component) are part of the corpus.",
        design="6 (C05)", technique="TLA+ conservation predicate (independent comment/front-matter scanner) judged by TLC over recorded event streams",
        note=PARSE_NOTE),
    "C06": dict(
        text="The eleven consistency predicates (indices, document order, back-links exactly once, step/section reference "
             "bounds, step numbering, nothing empty, timers, reference <=> modifier, same folded name) are operators of "
             "spec/CookAnalysis.tla. TLC checks them as invariants of every generated document of every kernel and walk "
             "(analysis errors included), and then judges with the very same operators the model the real parser returns "
             "for those documents and for the plain corpora (exhaustive short strings, repository recipes, splices, "
             "repetitions) under several extension sets and both converters; the per-event collector snapshots of hook H2 "
             "are validated against the scalar transition relation of the analysis model (SnapStep).",
        design="6 (C06), 3.5", technique="TLA+ invariants on the analysis model + trace validation of returned models and collector snapshots",
        note=DOC_NOTE),
    "C08": dict(
        text="spec/CookScale.tla states, over the recipe model CookAnalysis predicts for a generated document, which outcome and "
             "multiplier every component must get (Linear exactly for unlocked numeric/range ingredient quantities) and that "
             "the base of scale_to_servings is the first declared servings value. Valid CookDoc recipes are scaled by a set "
             "of factors; TLC judges per component the reported outcome and the physical amount before/after (value x unit "
             "ratio, whatever unit it was fitted to), cookware/timers/inline quantities/names/relations/steps/metadata "
             "unchanged, default_scale verbatim, scale_to_servings(n) = scale(n / first declared) with the base taken from "
             "the specification's prediction (spec/Trace_Scale.tla). Amounts are measured with the specification's standard definitions (CookConvert!StdDefs) whenever both units have one, so that a wrong ratio inside the library cannot cancel out; SI-prefixed units, `serves` / `yield` and servings set by hand (set_servings) are part of the corpus.",
        design="6 (C08), 3.6", technique="TLA+ predicted recipe model + scaling rules + TLC simulation + replay + trace validation of scaled components",
        note="Trusted: TLC, the projection; amounts are compared in f64 (1e-9 relative) by the harness because TLC has no reals."),
    "C09": dict(
        text="spec/CookConvert.tla models conversion over a model converter with integer ratios and offsets, so TLC computes "
             "the exact rational result of every quantity x target (every unit, both systems, fit), the best unit chosen by "
             "the thresholds and the failure class, and checks there-and-back identity, amount preservation and best-list "
             "membership as invariants. Every case is replayed through ScaledQuantity::convert / fit and Converter::convert; "
             "TLC judges success/failure as specified, failure class with the quantity unchanged, amount as defined (1e-9) "
             "and the unit chosen (spec/Trace_Convert.tla). For the bundled converter the specification carries the "
             "real-world definitions (StdDefs): every ordered pair of units x 7 values must agree with them (1e-6) and "
             "there-and-back / via-every-third-unit must agree with the direct conversion (1e-9). Valid CookDoc recipes go "
             "through ScaledRecipe::convert to both systems: amounts preserved, units from the designated list, failures "
             "unchanged and all reported. Quantity::fit is swept over 409 values x every bundled unit (FitPreservesAmount, measured with StdDefs), and ScaledRecipe::convert runs on a range x unit grid with references that carry their own quantity. To a system / fit, the specification prints the exact amount in every unit of the designated list: the clause is a unit of the list with the amount specified for it (the threshold choice and the error variant of a failing conversion are drift). Every bundled pair is also converted through a quantity (fractions), with amounts beyond u32, and every converter CookBuilder predicts from the layer pool of MC_Builder converts each pair of its units by the predicted ratios (LayeredAmountAsDefined).",
        design="6 (C09), 3.6", technique="TLA+ exact-rational conversion model + TLC enumeration + replay + trace validation; standard definitions as spec constants",
        note="Trusted: TLC; the IEEE evaluation and the tolerances are the harness' (TLC has no reals); StdDefs are the SI / US "
             "customary definitions. A typo below the precision of units.toml itself (~1e-7) cannot be seen."),
    "C10": dict(
        text="spec/CookGroup.tla models GroupedQuantity's buckets (text and failed adds aside, unitless, one total per physical "
             "quantity, one per unknown unit) over a model converter with small integer ratios, amounts in exact quarter "
             "units; TLC explores every add sequence into two groups followed by a merge and checks Conservation (totals per "
             "class and the multiset of text values) as an invariant. The same operation sequences are replayed on the real "
             "GroupedQuantity and TLC judges the totals observed after every step and after fit (spec/Trace_Group.tla). "
             "For recipes, valid CookDoc documents go through group_ingredients, IngredientList (one recipe, twice) and "
             "categorize with an aisle file whose synonyms collide with listed names; TLC recomputes the expected totals "
             "from the recipe's quantities with the same operators (spec/Trace_List.tla): grouped = definitions in recipe "
             "order, each quantity once under the definition CookAnalysis resolves it to, hidden/reference-only not listed, "
             "lists and categories conserve. Every bundled unit x 135 numbers / ranges is added in two halves and fitted with the bundled converter (fractions on), measured with the specification's standard definitions (BundledTotalsConserved).",
        design="6 (C10), 3.7", technique="TLA+ bucket model with exact arithmetic + TLC exhaustive add/merge sequences + trace validation of totals",
        note="Trusted: TLC; exactness relies on the model converter's integer ratios (the recorder flags any total that is "
             "not within 1e-6 of a quarter unit). The bundled converter's non-integer ratios are exercised by C09, not here."),
    "C11": dict(
        text="TLC explores the line-at-a-time model of aisle::parse (spec/CookAisle.tla) exhaustively over every symbol "
             "string up to a bound and every file of pool lines, checking duplicate-freedom, span bounds, lookup and "
             "write/parse identity as invariants of the model; every finished behaviour (input + predicted outcome) is "
             "replayed into the real aisle::parse/write/ingredients_info and the recorded executions are judged by TLC "
             "(spec/Trace_Aisle.tla) with the same predicates (which error a file with several problems reports, its spans and the writer's layout are drift); names that differ only in letter case sit in different categories, and the bindings' category_for is asked for every listed name (BindingsLookup). Bounded-exhaustive over the format's alphabet, sampled beyond.",
        design="6 (C11), 3.8", technique="TLA+ model (CookAisle) + TLC exhaustive generation + trace validation of recorded aisle::parse runs",
        note="Trusted: TLC, the JSON reader, the recorder's projection. Inputs beyond the bound are only sampled (seeded)."),
    "C12": dict(
        text="Number::new_approx and its lookup table are transcribed into exact integer arithmetic on the dyadic grid "
             "W + j/4096 (spec/CookFraction.tla: table construction, nearest search with tie-break, round-to-integer "
             "shortcut, limits). TLC explores grid x max denominator x accuracy x whole limit exhaustively and checks the "
             "C12 postcondition on the model's own answers; every point is replayed into the real function and TLC judges "
             "the recorded results (spec/Trace_Fraction.tla): declines non-positive/non-finite, whole within limit, "
             "denominator supported and <= max, 0 < num < den, exact value, error within accuracy, integers plain, "
             "printed form. Agreement with the model's choice of fraction is drift only. Special and seeded random "
             "values extend beyond the grid.",
        design="6 (C12), 3.10", technique="TLA+ transcription of the approximation + TLC exhaustive grid + trace validation of recorded results",
        note="Trusted: TLC; IEEE-754 facts (exactness within 4 ulp, error bound, integrality) are computed by the harness "
             "because TLC has no floating point; accuracies are whole percents in the model."),
    "C07": dict(
        text="Soundness: every well-formed generated document (C01 corpus) must yield nothing but the documented deprecation "
             "notice. Completeness: CookDoc injects one cataloged invalid construct (27 parse-stage and 13 analysis-stage "
             "variants covering the 13 kinds of the property, including references that break a rule with respect to an "
             "existing definition) at every position of an exhaustive defect kernel and at random positions of the walks, "
             "and predicts severity, stage, class and the byte span of the construct; TLC judges that such a diagnostic "
             "exists and that its first label touches the span. Validity <=> output and no error, parse errors suppress "
             "output and analysis diagnostics, analysis errors keep the output: invariants of CookAnalysis and clauses "
             "judged on every record. The parser itself is also specified as a parser (spec/CookParser.tla, a transcription of src/parser over the tokens of CookLexer; TLC enumerates every string up to a bound over ten kernel alphabets x extension sets, checks the design invariants and prints the predicted events; for whole documents TLC lexes and parses the recorded text itself) and TLC judges the real PullParser events against it (spec/Trace_Parser.tla): clauses SilentWhenSpecifiedSilent and DiagnosedAsSpecified (kind and a label touching the specified one, and at least as many diagnostics of a kind as the specification has classes of that kind) for every input of the kernels - the timer kernel under eight extension sets that switch single gates - not only the cataloged defects. Diagnostics are compared by severity, stage and labels; their classes (read off the message text) only as drift, and after an injected invalid construct only that construct's diagnostic and the validity rules are demanded - rewording, extra hints and other recovery are not alarms (55 stored benign changes, ./check selftest --part benign).",
        design="6 (C07)", technique="TLA+ defect-injecting generator + TLC exhaustive kernel/simulation + trace validation of diagnostics",
        note=DOC_NOTE + " Replay of the defect kernel is stratified per defect class at the quick tier."),
    "C13": dict(
        text="spec/CookMeta.tla generates the documented value shapes of the standard keys with the reading each must have "
             "(durations computed exactly in seconds and rounded to minutes; compact HhMm; number-unit pairs over every unit "
             "name of three converters; u32 boundary values; servings, tags, the seven name/URL forms, locale) and "
             "out-of-form values whose reading is 'warning and nothing'. TLC enumerates key x shape x spelling x style "
             "exhaustively; each is written through `>>` and through a YAML front matter, parsed with the bundled, the empty "
             "and a renamed-units converter, and TLC judges the recorded warning flag and accessor results "
             "(spec/Trace_StdMeta.tla): reading as documented, out-of-form => warning and nothing, warning <=> nothing, "
             "typed Metadata accessors agree, servings stored for scaling. A fourth converter whose minutes cannot be found under an English key while `m` is the metre, and documents with an out-of-form `time` next to valid prep / cook times, are part of the corpus. spec/CookStdValue.tla transcribes the readers character by character (parse_time, locale, servings and tags strings); MC_StdValue enumerates every string over small alphabets up to 4 (thorough 5) characters with its specified reading. The parse-time warning is recognised without its wording: a warning that the same document written with a documented value does not have.",
        design="6 (C13), 3.10", technique="TLA+ generator of documented metadata shapes with exact predictions + TLC enumeration + trace validation of accessors",
        note="Trusted: TLC; numbers travel as decimal strings; the renamed converter keeps `min` reachable (the reader looks "
             "minutes up under English keys - a converter renaming that too cannot read durations, recorded as an observation)."),
    "C14": dict(
        text="The two block scanners are specified at the level of lines (spec/CookBlocks.tla: which lines start a token "
             "line given escaped newlines and multi-line block comments, which `>>` lines each scanner turns into entries - comments inside the key or the value included, "
             "front matter switching old-style metadata off) and folded through CookAnalysis!AMeta; TLC checks "
             "MetaScanAgrees on every line sequence up to a bound x {front matter} x {LF, CRLF} under all/no extensions and "
             "prints each document with the map both parses must return. The real parse / parse_metadata pairs for those "
             "documents, the plain corpora (with front matters that are not read - YAML error, no mapping, a repeated key - in front of entry lines, and documents opening with a byte-order mark) and CookDoc walks under several extension subsets are judged by TLC "
             "(spec/Trace_Meta.tla): both have output => equal maps (order included); the predicted map is compared as drift.",
        design="6 (C14), 3.3", technique="TLA+ line-level model of both scanners + TLC exhaustive line sequences + trace validation of paired parses",
        note=DOC_NOTE),
    "C16": dict(
        text="spec/CookBuilder.tla is an implementation-shaped model of ConverterBuilder: AddFile (units by system, best lists "
             "override, extend pushed, SI prefixes joined by precedence) and the four phases of finish (SI expansion, extend "
             "groups with index removal/re-expansion/re-indexing, best lists, fractions), each able to reject; layers are "
             "values in serde's own shape, interpreted by the model and deserialised by the real builder. TLC explores every "
             "sequence of up to 3 (thorough 4) files from a 24-file pool, checks the C16 invariants on every Built state and "
             "that every behaviour ends Built or Rejected, and prints the predicted converter. TLC then judges the real "
             "outcome (spec/Trace_Builder.tla): never a panic; built/rejected as specified; every key found on a unit "
             "resolves to it; no shared key; declared keys resolve; best lists of the own quantity in increasing size; "
             "units with name/symbol/alias order and ratios as the precedence rules predict; default converter equals "
             "the shipped file. Which error is reported is drift only.",
        design="6 (C16), 3.9", technique="TLA+ builder model + TLC exhaustive layer sequences + replay into ConverterBuilder + trace validation",
        note="Trusted: TLC, serde deserialisation of the printed layers. Ratios are small integers; the pool is curated, not random."),
    "C17": dict(
        text="For every finished document CookDoc also prints 13 variants built from marks the generator itself places "
             "(item separators, block starts, Cooklang line ends, fences): CRLF, trailing comments/blanks/tabs, block "
             "comments between items, extra blank / blank-padded / comment-only lines between blocks, blanks after the "
             "front matter fences. Base and variants are parsed by the real library and TLC judges the projected recipes "
             "and validity equal (spec/Trace_Variants.tla); CRLF replacement is also applied to every plain corpus input "
             "without a backslash or lone CR. The lexer/blocks models carry the design-level facts (CR LF is one newline "
             "token, comments are tokens).",
        design="6 (C17)", technique="TLA+ generator printing metamorphic variants + TLC simulation + trace validation of paired parses",
        note=DOC_NOTE),
    "C18": dict(
        text="spec/CookShared.tla models threads calling one shared parser with the process-wide lazily built fraction "
             "table as a LazyLock (one builder, others wait); TLC explores every interleaving of 3 threads x 2 inputs "
             "within a call bound and checks Deterministic (a broken check-then-set sibling, CookSharedRacy, is kept to show "
             "TLC finds the hazard class). Histories are then recorded from the real library in fresh processes: 8 threads "
             "released by a barrier on one parser, then a long sequential history (every input after every other, "
             "parse / parse_metadata / parse_with_options(validator) / parse+scale+convert+group), with the baseline of "
             "every (operation, input) from a fresh parser; TLC validates each history against the model's notion of an "
             "explainable history (spec/Trace_Shared.tla): per-thread Begin/End alternation and every End carrying the "
             "sequential baseline. Every baseline comes from a pristine process (one per operation x input x configuration), so that process-wide state of an earlier call cannot be in the baseline either. Every other run adds 40 cold-start rounds: a brand-new parser, all threads released together on one of three inputs (prose with unit names, durations with unit names, durations that are no whole minutes). A fifth operation reads the standard metadata accessors of a parsed recipe between parses.",
        design="6 (C18), 3.11", technique="TLA+ concurrency model checked exhaustively + trace validation of recorded multi-thread and sequential histories",
        note="Trusted: TLC; a 64-bit hash of JSON image + ordered diagnostics stands for the result. Real thread schedules are "
             "those the OS produces (their number is reported), not an exhaustive set."),
    "C15": dict(
        text="The specification contributes the abstract identity De(Ser(r)) = r with Ser(De(Ser(r))) = Ser(r) and the list of "
             "model constructors (RequiredVariants in spec/Trace_Serde.tla: number/fraction/range/text values, fixed/linear "
             "scalable values, every reference relation, recipe references, modifiers, timers, inline quantities, sections, "
             "text blocks, every YAML node kind, every scale outcome) a run must have exercised. Recipes come from CookDoc "
             "walks (extended and canonical parser), the structure kernel, front matters with nested YAML incl. non-string "
             "keys and tags, recipe references, the repository's recipes and a grid of fraction-prone quantities; each is "
             "taken as parsed, default-scaled, scaled by several factors and converted to both systems, serialised to JSON, "
             "read back, compared and serialised again by the recorder; TLC judges every record (Returns, "
             "SerializesAndDeserializes, DeserializedEqualsOriginal, ReserializationIdentical) and the final coverage record "
             "(EveryVariantExercised: an unexercised constructor fails the run instead of passing silently). Texts with characters JSON escapes in every position, empty collections under the standard keys, amounts of exactly zero and improper fractions are part of the corpus.",
        design="6 (C15)", technique="TLA+ generator (CookDoc) + trace validation of serde round trips with a variant-coverage clause",
        note="Trusted: TLC, serde / serde_json (built with float_roundtrip) / serde_yaml as black boxes. ScaledRecipe has no "
             "PartialEq: public fields plus the re-serialised image are compared. Two recorded findings (known_findings.json): "
             "front matter with a non-string YAML key or a tagged value does not serialise to JSON."),
    "C19": dict(
        text="spec/CookCombine.tla specifies combine_ingredients_selected as a fold of amounts into per-(name, unit) groups "
             "(numbers and ranges summed bound by bound, text and missing amounts kept apart); TLC enumerates every list up to "
             "3 (thorough 4) entries from a 9-entry pool x every selection sequence, checks order independence on the model and "
             "prints the predicted sums; the real bindings (compiled as an rlib from /repo/bindings) are run on each case and "
             "TLC judges (spec/Trace_Ffi.tla) numeric sums, key sets, selection = combine of the sub-list, no panic. For the "
             "mirror half canonically valid CookDoc recipes and the repository's recipes are parsed by parse_recipe (factors 1, "
             "0.5, 3) and compared by TLC with the core recipe projected to the same shape: sections/blocks/items in order, "
             "component lists, every item reference resolving through deref_component, per-step lists = the step's item "
             "references, per-section lists = concatenation of the step lists. Every combine case also runs with all amounts divided by 3 and by 7000 (sums no decimal rounding leaves intact).",
        design="6 (C19)", technique="TLA+ combine model + TLC exhaustive lists x selections + replay into the bindings + trace validation of the mirrored recipe",
        note="Trusted: TLC; quantities compared as shortest decimal strings; the bindings' uniffi scaffolding itself (the "
             "generated foreign-language glue) is not executed, the exported Rust functions are."),
}

NOT_YET = "check not built yet in this session (work in progress, see DESIGN.md section 10)"


def main():
    checks = []
    for pid in ALL:
        if pid not in CHECKS:
            continue
        c = CHECKS[pid]
        checks.append(dict(
            property_id=pid,
            quick_cmd=f"./check {pid} --tier quick",
            thorough_cmd=f"./check {pid} --tier thorough",
            evidence_file=f"/verif/evidence/{pid}.json",
            replay_cmd_template=f"./check {pid} --replay {{path}}",
            engine="tlc+cookverif",
            level_claimed=dict(category="model_checking", text=c["text"], design_ref=c["design"]),
            level_note=c["note"],
            technique=c["technique"],
        ))
    m = dict(
        version=1,
        setup_cmd="./check setup",
        hooks=dict(
            guard="cooklang_verif",
            enable="RUSTFLAGS --cfg cooklang_verif, set in /verif/harness/.cargo/config.toml (the harness has a path dependency on /repo)",
            baseline_off_cmd="cd /repo && cargo test --workspace --no-fail-fast --offline",
            source_commits=["6df0f0d", "cfd8a08", "c49ccf2"],
            add_only=True,
        ),
        engines=[dict(name="tlc+cookverif", path="/verif/check",
                      serves_properties=sorted(CHECKS),
                      kind_free_text="TLA+ specifications in /verif/spec checked and used as generators/judges by TLC; "
                                     "Rust recorder /verif/harness/cookverif drives the real library")],
        checks=checks,
        notes="Exit codes: 0 held, 1 violation (VIOLATION line + replay file), 2 tool error/timeout. "
              "known_findings.json lists recorded/fixed defects.",
        not_applicable=[dict(property_id=p, reason=NOT_YET) for p in ALL if p not in CHECKS],
    )
    with open(os.path.join(ROOT, "MANIFEST.json"), "w") as f:
        json.dump(m, f, indent=1)
    print("MANIFEST.json:", len(checks), "checks,", len(m["not_applicable"]), "not applicable")


if __name__ == "__main__":
    main()
