"""C16: converters built from configuration layers are consistent or rejected."""
import json
import os

from . import core


def check_c16(ctx):
    core.build_harness()
    quick = ctx.tier == "quick"
    r = core.run_tlc(ctx, "MC_Builder", "MC_Builder_quick.cfg" if quick else "MC_Builder_thorough.cfg", workers=8, timeout=3000,
                     strata=((r'outcome\\":\\"([a-z]+)', 6000 if quick else 60000)))
    ctx.model_violation(r)
    pin = os.path.join(ctx.work, "b_in.ndjson")
    pout = os.path.join(ctx.work, "b_obs.ndjson")
    core.write_ndjson(pin, r.replay)
    core.run_harness(ctx, ["builder", "--in", pin, "--out", pout])
    obs = core.read_ndjson(pout)
    n, bad, notes = core.run_judge(ctx, "Trace_Builder", pout)
    for _, names in notes:
        for d in names:
            ctx.drift_note(d)
    bad.sort(key=lambda b: (obs[b[0] - 1]["nfiles"], len(json.dumps(obs[b[0] - 1]["files"]))))
    for line, names in bad:
        x = obs[line - 1]
        for c in names:
            key = c + (":" + x["obs"].get("sig", "")[:60] if c == "NeverPanics" else "")
            short = json.dumps(x["files"])[:300]
            ctx.violation(key, f"C16 clause {c}: layers {short} -> predicted {x['pred']['outcome']} {x['pred'].get('reason', '')}, "
                               f"observed {x['obs']['outcome']} {x['obs'].get('reason', x['obs'].get('sig', ''))}",
                          dict(kind="builder", clause=c, files=x["files"], pred_outcome=x["pred"]["outcome"], obs=x["obs"] if x["obs"]["outcome"] != "built" else "built"))
    ctx.evaluations = len(obs)
    ctx.nontrivial = sum(1 for x in obs if x["obs"]["outcome"] == "built")
    ctx.rule = ("every sequence of up to MaxLayers (3 quick / 4 thorough) files from a 24-file pool written in serde's own shape "
                "(a full base file with SI expansion for two units, duplicate/blank/empty keys, new units with unsorted best "
                "lists, one-sided empty and unknown and wrong-quantity best lists, extend blocks with each precedence incl. "
                "aliases on SI-expanded units, edits of expanded units, unknown and doubly addressed units, alias collisions, "
                "SI prefix layers with each precedence, fraction settings for unknown units, a second SI-expanded unit), "
                "enumerated by TLC through the builder model (BFS, exhaustive; replay capped per outcome at the quick tier) "
                "with the predicted outcome, units, index and best lists; plus Converter::default() against units.toml. "
                "non-trivial = sequences for which a converter was actually built")
    ctx.extra["exhaustive"] = not quick
    for x in obs[:1] + [y for y in obs if y["obs"]["outcome"] == "built"][:2]:
        ctx.sample(dict(files=json.dumps(x["files"])[:400], predicted=x["pred"]["outcome"] + " " + x["pred"].get("reason", ""),
                        observed=x["obs"]["outcome"] + " " + x["obs"].get("reason", "")))
    ctx.assumptions = ["TLC and the CommunityModules JSON reader are trusted", "ratios are small integers (x1000) so that sorting and equality are exact"]


def replay_c16(ctx, case):
    core.build_harness()
    print("re-running C16 (the case is one layer sequence of the exhaustive pool):", json.dumps(case["case"].get("files"))[:500])
    check_c16(ctx)
    return ctx.finish()
