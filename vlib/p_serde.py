"""C15: recipes survive serialization."""
import itertools
import os

from . import core
from .p_doc import gen_docs, text_of
from .p_parse import repo_corpus

FRONT_MATTERS = [
    "---\ntitle: Soup\ntags: [a, b]\nnested: {a: 1, b: [x, {y: 2.5}]}\nflag: true\nnothing: ~\ncount: 3\nservings: 2\n---\n@a{1%cup}\n",
    "---\nservings: [2, 4 cups]\ntime: {prep: 10 min, cook: 1h}\nauthor: {name: Me, url: 'https://me.example'}\nbig: 123456789012\nneg: -1.5e3\n---\nstep\n",
    "---\n1: numeric key\ntitle: x\n---\nstep\n",
    "---\ntagged: !custom value\n---\nstep\n",
    "---\n? [a, b]\n: sequence key\n---\nstep\n",
    "---\ntrue: bool key\n---\nstep\n",
]
# characters JSON has to escape, in every text position; empty collections in the standard keys
ESCAPES = ['@tart tin{1%9"}\n', '@baking paper{2%12" sheets}(the "good" one)\n', '@a\\b{1%c\\d}\n', '>> title: say "hi"\n@x{some "text"}\n',
           '@tab\there{1}\n', '~"rest"{5%min}\n', '#"pan"|big "pan"{}\n', '= "Prep" =\n> a "quoted" note\n']
# amounts beyond the integers a JSON library may reach for
HUGE = ["@sand{10000000000000000000%grains}\n", "@x{30000000000000000000} and @y{20000000000000000000-40000000000000000000}\n",
        "@z{18446744073709551616%things} ~{9223372036854775808%blinks}\n", "@w{0.00000000000000000001%motes}\n"]
EMPTIES = ["---\nservings: []\n---\n@a{1}\n", "---\nserves: []\n---\nstep\n", "---\nyield: []\ntags: []\n---\nstep\n",
           "---\nservings: [2]\ntags: [a]\nauthor: {}\ntime: {}\n---\nstep\n", "---\nk: []\nj: {}\nn: ''\n---\nstep\n"]
REFERENCES = ["@./sauce{2%cups}\n", "@../x/y{1}\n", "@./a/b/c{}\n", "@@./tomato sauce{2%cups} and @&./tomato sauce{1%cup}\n", "@.\\win\\path{}\n"]


def fraction_docs():
    out = []
    for v, u, n in itertools.product(["1/3", "2/3", "0.1", "0.3", "1/8", "1 1/2", "0.333", "2-3", "1/3-2/3", "0", "0/5", "3/2", "0-1"], ["cup", "tsp", "tbsp", "oz", "lb", "fl oz", "g", "ml"],
                                     ["2", ""]):
        meta = f">> servings: {n}\n" if n else ""
        out.append(dict(text=f"{meta}@milk{{{v}%{u}}} @&milk{{{v}%{u}}} ~{{{v}%h}}\n", extbits=3818, conv="bundled", tag="fractions"))
    return out


def check_c15(ctx):
    core.build_harness()
    quick = ctx.tier == "quick"
    n = 500 if quick else 8000
    docs = gen_docs(ctx, "MC_Doc_sim_ext.cfg", simulate=n) + gen_docs(ctx, "MC_Doc_sim_canon.cfg", simulate=n // 2) \
        + gen_docs(ctx, "MC_Doc_struct.cfg", max_n=1500 if quick else 30000)
    recs = [dict(text=d["text"], ext=d["ext"], conv=d["conv"], tag="cookdoc") for d in docs]
    recs += [dict(text=t, extbits=3818, conv="bundled", tag="frontmatter") for t in FRONT_MATTERS]
    recs += [dict(text=t, extbits=3818, conv="bundled", tag="reference") for t in REFERENCES]
    recs += [dict(text=t, extbits=3818, conv="bundled", tag="escapes") for t in ESCAPES]
    recs += [dict(text=t, extbits=3818, conv="bundled", tag="empties") for t in EMPTIES]
    recs += [dict(text=t, extbits=3818, conv="bundled", tag="huge") for t in HUGE]
    recs += [dict(text=t["text"], extbits=3818, conv="bundled", tag="repo") for t in repo_corpus()]
    recs += fraction_docs()
    pin = os.path.join(ctx.work, "sd_in.ndjson")
    pout = os.path.join(ctx.work, "sd_obs.ndjson")
    core.write_ndjson(pin, recs)
    core.run_harness(ctx, ["serde", "--in", pin, "--out", pout, "--factors", "0.5,3,7,0.3333333333333333,1.1,0" if quick else "0.5,3,7,0.3333333333333333,1.1,0,2,10,3.3333333333333335,0.7"])
    obs = core.read_ndjson(pout)
    nrec, bad, _ = core.run_judge(ctx, "Trace_Serde", pout)
    bad.sort(key=lambda b: len(obs[b[0] - 1].get("text", "")))
    for line, names in bad:
        x = obs[line - 1]
        for c in names:
            if x["kind_rec"] == "coverage":
                ctx.violation(c, f"C15: a run must exercise every model constructor; seen only {x['variants']}", dict(kind="coverage", variants=x["variants"]))
                continue
            failing = [k for k in x["obs"].get("cases", []) if not (k["rt"].get("equal") and k["rt"].get("identical"))][:2]
            key = c
            if "1: numeric key" in x["text"] or "? [a, b]" in x["text"] or "true: bool key" in x["text"]:
                key = "non-string YAML key"
            elif "!custom" in x["text"]:
                key = "tagged YAML value"
            ctx.violation(key, f"C15 clause {c}: {x['text'][:160]!r}: {failing}"[:600], dict(kind="serde", clause=c, text=x["text"], extbits=x["extbits"], conv=x["conv"], failing=failing))
    ok = [x for x in obs if x["kind_rec"] == "recipe" and x["obs"]["st"] == "ok"]
    ctx.evaluations = sum(len(x["obs"]["cases"]) for x in ok)
    ctx.nontrivial = len({x["text"] for x in ok if len(x["text"]) > 8})
    ctx.rule = ("recipes: CookDoc walks (extended and canonical parser) and the structure kernel, front matters with nested YAML "
                "(lists, mappings, numbers, booleans, null, non-string keys, a tagged value), recipe references with and without "
                "directory components, the repository's recipes, and a grid of fraction-prone quantities (1/3, 0.1, ... x imperial "
                "and metric units); each as parsed, default-scaled, scaled by several factors, and converted to both systems; "
                "every form is serialised, deserialised, compared and re-serialised. A final record lists the model constructors "
                "seen; the specification's RequiredVariants must all be among them. non-trivial = distinct recipes of more than 8 characters")
    cov = [x for x in obs if x["kind_rec"] == "coverage"]
    ctx.extra["variants_seen"] = cov[0]["variants"] if cov else []
    for x in ok[:2]:
        ctx.sample(dict(text=x["text"][:160], cases=[(k["what"], k["rt"]["equal"], k["rt"]["identical"]) for k in x["obs"]["cases"][:4]]))
    ctx.assumptions = ["serde / serde_json / serde_yaml are black boxes; serde_json is built with float_roundtrip in the harness so that "
                       "its own best-effort float parsing is not charged to the library",
                       "ScaledRecipe has no PartialEq: its public fields are compared, plus the re-serialised image"]


def replay_c15(ctx, case):
    core.build_harness()
    c = case["case"]
    pin = os.path.join(ctx.work, "sd_in.ndjson")
    pout = os.path.join(ctx.work, "sd_obs.ndjson")
    core.write_ndjson(pin, [dict(text=c["text"], extbits=c["extbits"], conv=c["conv"])])
    core.run_harness(ctx, ["serde", "--in", pin, "--out", pout, "--factors", "0.5,3,7,0.3333333333333333,1.1,0"])
    obs = core.read_ndjson(pout)
    nrec, bad, _ = core.run_judge(ctx, "Trace_Serde", pout)
    for line, names in bad:
        if obs[line - 1]["kind_rec"] == "recipe":
            ctx.violation("replay", f"still fails: {names}", dict())
    return ctx.finish()
