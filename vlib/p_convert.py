"""C09: unit conversion preserves the physical amount."""
import json
import os

from . import core
from .p_doc import gen_docs


def check_c09(ctx):
    core.build_harness()
    quick = ctx.tier == "quick"
    r = core.run_tlc(ctx, "MC_Convert", "MC_Convert.cfg", workers=8, timeout=3000)
    ctx.model_violation(r)
    std = None
    for line in r.printed:
        if line.startswith('<<"STD", '):
            std = json.loads(json.loads(line[len('<<"STD", '):].rstrip()[:-2]))
    if std is None:
        raise core.ToolError("MC_Convert did not print the standard definitions")
    docs = gen_docs(ctx, "MC_Doc_sim_ext.cfg", simulate=500 if quick else 10000)
    docs = [dict(text=d["text"]) for d in docs if d["pred"]["valid"]]
    # ranges and references with their own quantity, in every unit family: the fraction fit and the per-ingredient loop
    for v in ["3-6", "7.5-15", "1-2", "0.5-4", "2-16", "10-500", "1/3-2/3", "250"]:
        for u in ["tsp", "tbsp", "cup", "ml", "l", "fl oz", "oz", "lb", "g", "kg", "pint", "cm", "inch", "°C", "°F", "dl", "dag"]:
            docs.append(dict(text=f"@x{{{v}%{u}}}\n"))
            docs.append(dict(text=f"@flour{{1000%g}} and @milk{{1%l}} then @&flour{{{v}%{u}}} or @&milk{{{v}%{u}}}\n"))
    pin = os.path.join(ctx.work, "c_in.ndjson")
    pstd = os.path.join(ctx.work, "std.json")
    pdocs = os.path.join(ctx.work, "c_docs.ndjson")
    pout = os.path.join(ctx.work, "c_obs.ndjson")
    core.write_ndjson(pin, r.replay)
    json.dump(std, open(pstd, "w"))
    core.write_ndjson(pdocs, docs)
    core.run_harness(ctx, ["convert", "--in", pin, "--std", pstd, "--docs", pdocs, "--out", pout])
    # converters built from layers (the pool of MC_Builder with the unit table CookBuilder predicts): every pair of units
    rb = core.run_tlc(ctx, "MC_Builder", "MC_Builder_quick.cfg" if quick else "MC_Builder_thorough.cfg", workers=8, timeout=3000,
                      strata=((r'outcome\\":\\"([a-z]+)', 1500 if quick else 20000)))
    ctx.model_violation(rb, "(builder pool)")
    pbin = os.path.join(ctx.work, "lay_in.ndjson")
    pbout = os.path.join(ctx.work, "lay_obs.ndjson")
    core.write_ndjson(pbin, [x for x in rb.replay if x["pred"]["outcome"] == "built"])
    core.run_harness(ctx, ["builder", "--in", pbin, "--out", pbout, "--conversions"])
    with open(pout, "a") as f:
        f.write(open(pbout).read())
    obs = core.read_ndjson(pout)
    n, bad, notes = core.run_judge(ctx, "Trace_Convert", pout)
    for _, names in notes:
        for d in names:
            ctx.drift_note(d)
    for line, names in bad:
        x = obs[line - 1]
        for c in names:
            if x["kind_rec"] == "model":
                what = f"{x['q']} -> {x['kind']} {x['target']!r}: predicted {x['pred']}, observed {x['obs']}"
                key = f"{c}:{x['kind']}"
            elif x["kind_rec"] == "fit":
                what = f"Quantity::fit in {x['unit']}: {x['bad']} of {x['values']} values change the amount (first: {x['first']}), {x['panics']} panics"
                key = f"{c}:{x['unit']}"
            elif x["kind_rec"] == "layered":
                what = f"converter built from layers {json.dumps(x['files'])[:260]}: {x.get('bad')} of {x.get('pairs')} conversions differ from the predicted ratios (first: {x.get('first')}); {x['st']}"
                key = f"{c}:layered"
            elif x["kind_rec"] == "bundled":
                what = f"bundled {x['from']} -> {x['to']}: back_ok={x['back_ok']} via_ok={x['via_ok']} std_ok={x['std_ok']} worst={x['worst_ppb']}ppb"
                key = f"{c}:{x['from']}"
            else:
                what = f"recipe {x['text'][:120]!r} to {x.get('system')}: {dict((k, x[k]) for k in x if k not in ('text', 'kind_rec'))}"
                key = f"{c}:recipe"
            ctx.violation(key, f"C09 clause {c}: {what}"[:600], dict(kind="convert", clause=c, record=x))
    ctx.evaluations = len(obs)
    ctx.nontrivial = sum(1 for x in obs if x["kind_rec"] == "model" and x["pred"]["ok"]) + sum(1 for x in obs if x["kind_rec"] == "bundled")
    ctx.rule = ("(1) every quantity (14 values incl. 0, negatives and values around the best-unit thresholds, ranges, text, unknown "
                "and missing units) x every target (each unit of the model converter incl. an unknown one, both systems, fit) "
                "enumerated by TLC with the exact rational result, chosen best unit or failure class; (2) every ordered pair of "
                "the bundled converter's units of one physical quantity x 7 values: there-and-back, via every third unit, and "
                "agreement with the standard definitions carried by the specification (StdDefs) within 1e-6; (3) valid CookDoc "
                "recipes through ScaledRecipe::convert to both systems (there and back) with the model and the bundled converter; "
                "(4) Quantity::fit over a value sweep of every bundled unit; (5) every converter CookBuilder predicts to be built from "
                "the layer pool of MC_Builder: each ordered pair of its units by the predicted ratios. "
                "non-trivial = successful model conversions + bundled unit pairs")
    ctx.extra["exhaustive"] = True
    ctx.extra["bundled_pairs"] = sum(1 for x in obs if x["kind_rec"] == "bundled")
    ctx.extra["bundled_pairs_with_standard_definition"] = sum(1 for x in obs if x["kind_rec"] == "bundled" and x["has_std"])
    ctx.extra["recipes"] = sum(1 for x in obs if x["kind_rec"] == "recipe")
    for x in [y for y in obs if y["kind_rec"] == "model"][100:102] + [y for y in obs if y["kind_rec"] == "bundled"][:2]:
        ctx.sample(x)
    ctx.assumptions = ["TLC computes exact rationals on the model converter; IEEE comparisons (1e-9 relative for exact predictions and round "
                       "trips, 1e-6 for the standard definitions) are made by the harness", "StdDefs are the SI / US customary definitions"]


def replay_c09(ctx, case):
    print("re-running C09; failing record:", json.dumps(case["case"].get("record"))[:800])
    check_c09(ctx)
    return ctx.finish()
