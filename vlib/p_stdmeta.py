"""C13: standard metadata values are interpreted as documented."""
import os

from . import core


def check_c13(ctx):
    core.build_harness()
    recs = []
    for conv in ("bundled", "empty", "renamed"):
        r = core.run_tlc(ctx, "CookMeta", f"CookMeta_{conv}.cfg", workers=8, strata=((r'pred\\":\{\\"t\\":\\"([a-z]+)', 3000) if ctx.tier == "quick" else None))
        ctx.model_violation(r)
        recs += r.replay
    # every short string over small alphabets, read by the character-level transcription of the readers (spec/CookStdValue.tla)
    n = 4 if ctx.tier == "quick" else 5
    for kind in ("time", "timeE", "locale", "servings", "tags", "nameurl"):
        r = core.run_tlc(ctx, "MC_StdValue", f"MC_StdValue_{kind}{n + 2 if kind == 'nameurl' else n}.cfg", workers=8, timeout=3000)
        ctx.model_violation(r)
        recs += r.replay
    ctx.extra["strings_enumerated_by_CookStdValue"] = sum(1 for x in recs if x.get("style") == "yamlstring" and len(x.get("val", [])) == 1)
    none = dict(t="none")
    # a converter whose minutes cannot be found under an English key while `m` is the metre: number-unit durations are all
    # out of form there (lengths included); plain minutes and the compact form do not need units
    for key in ("time", "prep time", "cook time", "duration"):
        for style in ("old", "yaml"):
            for v, pred in [("2 km", none), ("90 m", none), ("30 feet", none), ("5 metros", none), ("10 minutos", none), ("1 hora 5 mn", none),
                            ("45", dict(t="minutes", n="45")), ("1h30m", dict(t="minutes", n="90"))]:
                recs.append(dict(conv="nominutes", key=key, style=style, val=[v], pred=pred, number=(v == "45")))
    # an out-of-form total time next to valid prep / cook times: still nothing from the accessors
    for conv in ("bundled", "empty"):
        for style in ("old", "yaml"):
            for v in ["soon", "1h30", "-5", "99999999999 min", "[1, 2]" if style == "yaml" else "1 2 3"]:
                for extra in ([["prep time", "10 min"]], [["cook time", "20 min"]], [["prep time", "10 min"], ["cook time", "1h"]]):
                    recs.append(dict(conv=conv, key="time", style=style, val=[v], pred=none, number=False, extra=extra))
    pin = os.path.join(ctx.work, "meta_in.ndjson")
    pout = os.path.join(ctx.work, "meta_obs.ndjson")
    core.write_ndjson(pin, recs)
    core.run_harness(ctx, ["stdmeta", "--in", pin, "--out", pout])
    obs = core.read_ndjson(pout)
    n, bad, _ = core.run_judge(ctx, "Trace_StdMeta", pout)
    bad.sort(key=lambda b: len(obs[b[0] - 1]["text"]))
    for line, names in bad:
        x = obs[line - 1]
        for c in names:
            shape = "out-of-form" if x["pred"]["t"] == "none" else x["pred"]["t"]
            ctx.violation(f"{c}:{x['key']}:{shape}", f"C13 clause {c}: {x['text']!r} with the {x['conv']} converter: predicted {x['pred']}, "
                                                    f"observed {x['obs']}",
                          dict(kind="stdmeta", clause=c, key=x["key"], val=x["val"], style=x["style"], conv=x["conv"], pred=x["pred"], number=x.get("number"), extra=x.get("extra"), obs=x["obs"]))
    ctx.evaluations = len(obs)
    ctx.nontrivial = len({(x["key"], "".join(x["val"]), x["conv"]) for x in obs if x["pred"]["t"] != "none"})
    ctx.rule = ("every key x value shape x spelling x style of CookMeta, enumerated by TLC (BFS, exhaustive; hash-sampled to 3000 per prediction kind and "
                "converter at the quick tier): durations as plain minutes, compact HhMm (h in {0,1,2,25}, m in {0,1,30,59,61}), "
                "number-unit pairs over day/hour/minute/second counts with every hour/second unit name of the converter, tight "
                "and spaced, decimals, u32 boundary values and out-of-form values; servings, tags, author/source (the seven "
                "documented name/URL forms and mappings), locale; through `>>` and through a YAML front matter (quoted, bare "
                "number, raw YAML); with the bundled, the empty and a renamed-units converter. "
                "non-trivial = distinct documented (key, value, converter) combinations with a positive prediction")
    ctx.extra["exhaustive"] = ctx.tier != "quick"
    for x in obs[:2] + obs[-2:]:
        ctx.sample(dict(text=x["text"], conv=x["conv"], predicted=x["pred"], warned=x["obs"].get("warned"), accessor=x["obs"].get("acc")))
    ctx.assumptions = ["TLC and the CommunityModules JSON reader are trusted", "numbers travel as decimal strings (TLC integers are 32 bit)",
                       "the renamed-units converter keeps a minutes unit reachable under `min` (the reader looks minutes up under English keys)"]


def replay_c13(ctx, case):
    core.build_harness()
    c = case["case"]
    pin = os.path.join(ctx.work, "meta_in.ndjson")
    pout = os.path.join(ctx.work, "meta_obs.ndjson")
    core.write_ndjson(pin, [{k: c[k] for k in ("key", "val", "style", "conv", "pred", "number", "extra") if c.get(k) is not None}])
    core.run_harness(ctx, ["stdmeta", "--in", pin, "--out", pout])
    n, bad, _ = core.run_judge(ctx, "Trace_StdMeta", pout)
    for line, names in bad:
        ctx.violation("replay", f"still fails: {names}", dict())
    print(core.read_ndjson(pout)[0]["obs"])
    return ctx.finish()
