"""C19: the FFI view mirrors the core recipe and combines amounts faithfully."""
import os

from . import core
from .p_doc import gen_docs
from .p_parse import repo_corpus


def check_c19(ctx):
    core.build_harness()
    quick = ctx.tier == "quick"
    r = core.run_tlc(ctx, "MC_Combine", "MC_Combine_quick.cfg" if quick else "MC_Combine_thorough.cfg", workers=8, timeout=3000,
                     max_replay=None if quick else 300000)
    ctx.model_violation(r)
    docs = gen_docs(ctx, "MC_Doc_sim_canon.cfg", simulate=700 if quick else 12000)
    docs = [dict(text=d["text"]) for d in docs if d["pred"]["valid"]]
    docs += [dict(text=t["text"]) for t in repo_corpus()]
    pc = os.path.join(ctx.work, "f_comb.ndjson")
    pd = os.path.join(ctx.work, "f_docs.ndjson")
    pout = os.path.join(ctx.work, "f_obs.ndjson")
    core.write_ndjson(pc, r.replay)
    core.write_ndjson(pd, docs)
    core.run_harness(ctx, ["ffi", "--combine", pc, "--docs", pd, "--out", pout])
    obs = core.read_ndjson(pout)
    n, bad, _ = core.run_judge(ctx, "Trace_Ffi", pout)
    for line, names in bad:
        x = obs[line - 1]
        for c in names:
            if x["kind_rec"] == "combine":
                lst = [(i["name"], i["amount"]["t"], i["amount"]["lo"] / 4, i["amount"]["hi"] / 4, i["amount"]["unit"]) for i in x["list"]]
                what = f"list {lst} selection {x['sel']}: predicted {x['combined']}, observed {x['obs'].get('selected')}"
            else:
                what = f"recipe {x['text'][:160]!r} x {x['factor']}"
            ctx.violation(c, f"C19 clause {c}: {what}"[:600], dict(kind=x["kind_rec"], clause=c, record={k: x[k] for k in x if k != "core"}))
    ctx.evaluations = len(obs)
    ctx.nontrivial = sum(1 for x in obs if x["kind_rec"] == "combine" and len(x["sel"]) >= 2) + sum(1 for x in obs if x["kind_rec"] == "mirror" and x["obs"]["st"] == "ok")
    ctx.rule = ("(1) every ingredient list of up to MaxLen (3 quick / 4 thorough) entries from a 9-entry pool (numbers, ranges, text, no "
                "amount; same and different names and units) x every selection sequence without repetition (all sub-lists in all "
                "orders), enumerated by TLC with order independence checked on the model and the predicted sums printed; replayed "
                "through combine_ingredients_selected and combine_ingredients of the sub-list. (2) canonically valid CookDoc recipes "
                "and the repository's recipes x factors {1, 0.5, 3, 1.005, 0.999, 1 + 1e-9} through parse_recipe and deref_component against the core recipe. "
                "non-trivial = combine cases with at least two selected entries + valid mirrored recipes")
    ctx.extra["exhaustive"] = quick
    ctx.extra["mirrored_recipes"] = sum(1 for x in obs if x["kind_rec"] == "mirror" and x["obs"]["st"] == "ok")
    for x in [y for y in obs if y["kind_rec"] == "combine"][500:502]:
        ctx.sample(dict(list=[(i["name"], i["amount"]["t"], i["amount"]["lo"] / 4, i["amount"]["unit"]) for i in x["list"]], selection=x["sel"], observed=x["obs"].get("selected")))
    for x in [y for y in obs if y["kind_rec"] == "mirror" and y["obs"]["st"] == "ok"][:1]:
        ctx.sample(dict(recipe=x["text"][:200], factor=x["factor"], sections=len(x["obs"]["sections"])))
    ctx.assumptions = ["the bindings are compiled as an rlib from /repo/bindings/src/lib.rs (harness/ffi_shim); hook H3 gives access to Amount's fields",
                       "amounts are rendered as shortest decimal strings for comparison"]


def replay_c19(ctx, case):
    print("re-running C19; failing record:", str(case["case"].get("record"))[:600])
    check_c19(ctx)
    return ctx.finish()
