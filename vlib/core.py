"""Shared machinery of ./check: TLC runs, harness runs, trace judging, evidence, findings."""
import fcntl
import json
import os
import re
import shutil
import subprocess
import sys
import time

ROOT = os.path.dirname(os.path.dirname(os.path.abspath(__file__)))
SPEC = os.path.join(ROOT, "spec")
HARNESS = os.path.join(ROOT, "harness")
BIN = os.path.join(HARNESS, "target", "debug", "cookverif")
WORK = os.path.join(ROOT, "work")
EVIDENCE = os.path.join(ROOT, "evidence")
REPLAYS = os.path.join(ROOT, "replays")
TLA_CP = "/opt/veriftools/tla/tla2tools.jar:/opt/veriftools/tla/CommunityModules-deps.jar"


class ToolError(Exception):
    pass


def log(*a):
    print(*a, flush=True)


class Lock:
    """advisory lock so concurrent checks do not starve each other in heavy phases"""

    def __init__(self, name):
        os.makedirs(WORK, exist_ok=True)
        self.path = os.path.join(WORK, f".{name}.lock")

    def __enter__(self):
        self.f = open(self.path, "w")
        fcntl.flock(self.f, fcntl.LOCK_EX)
        return self

    def __exit__(self, *a):
        fcntl.flock(self.f, fcntl.LOCK_UN)
        self.f.close()


def build_harness():
    """(re)build the harness against /repo's working tree with the hooks on"""
    t0 = time.time()
    with Lock("cargo"):
        env = dict(os.environ, CARGO_NET_OFFLINE="true")
        p = subprocess.run(["cargo", "build", "--offline", "-q"], cwd=HARNESS, env=env,
                           stdout=subprocess.PIPE, stderr=subprocess.STDOUT, text=True)
    if p.returncode != 0:
        tail = "\n".join(p.stdout.splitlines()[-40:])
        raise ToolError("cargo build of the harness failed:\n" + tail)
    log(f"[build] harness built in {time.time() - t0:.1f}s")
    return BIN


class TlcResult:
    def __init__(self):
        self.generated = 0
        self.distinct = 0
        self.replay = []
        self.out_path = None
        self.violated = []   # names of violated invariants / properties
        self.errors = []     # other TLC errors
        self.wall = 0.0
        self.printed = []    # other PrintT tuples (as raw text)
        self.coverage = {}


def _decode_tlc_string_tuple(line, tag):
    """<<"TAG", "....json....">>  ->  python object"""
    prefix = '<<"%s", ' % tag
    body = line[len(prefix):].rstrip()
    if body.endswith(">>"):
        body = body[:-2]
    return json.loads(json.loads(body))


def run_tlc(ctx, module, cfg, *, workers=8, simulate=None, depth=None, env=None, timeout=1800,
            continue_=False, coverage=False, heap="12g", want_replay=True, extra=None, deque=False, max_replay=None,
            strata=None):
    """Runs TLC on spec/<module>.tla with spec/<cfg>; returns TlcResult. Scratch in ctx.work."""
    if max_replay is None and strata is None and want_replay and getattr(ctx, "tier", "quick") == "thorough":
        max_replay = 1000000     # behaviours beyond this are hash-sampled: 3.7 M replayed records cost 42 GB of Python objects
    wd = os.path.join(ctx.work, f"tlc-{module}-{len(ctx.tlc_runs)}")
    os.makedirs(wd, exist_ok=True)
    for f in os.listdir(SPEC):
        if f.endswith(".tla"):
            shutil.copy(os.path.join(SPEC, f), wd)
    shutil.copy(os.path.join(SPEC, cfg), os.path.join(wd, module + ".cfg"))
    out_path = os.path.join(wd, "out.txt")
    # TLC unpacks its standard modules into java.io.tmpdir (one tlc-<n> directory per run): keep that inside the run's
    # own work directory, which is removed with it, instead of /tmp
    jtmp = os.path.join(wd, "jtmp")
    os.makedirs(jtmp, exist_ok=True)
    jopts = f"-Xss1g -Xmx{heap} -Djava.io.tmpdir={jtmp}"
    if deque:
        jopts += " -Dtlc2.tool.queue.IStateQueue=StateDeque"
    cmd = ["timeout", str(timeout), "java", "-XX:+UseParallelGC"] + jopts.split() + [
        "-cp", TLA_CP, "tlc2.TLC", "-workers", str(workers), "-metadir", os.path.join(wd, "md"),
        "-cleanup", "-noGenerateSpecTE", "-config", module + ".cfg"]
    if simulate:
        cmd += ["-simulate", f"num={simulate}"]
        if depth:
            cmd += ["-depth", str(depth)]
        cmd += ["-seed", str(ctx.seed)]
    if continue_:
        cmd += ["-continue"]
    if coverage:
        cmd += ["-coverage", "1"]
    if extra:
        cmd += extra
    cmd += [module + ".tla"]
    e = dict(os.environ)
    e.pop("JAVA_TOOL_OPTIONS", None)
    if env:
        e.update(env)
    t0 = time.time()
    with open(out_path, "w") as out:
        p = subprocess.run(cmd, cwd=wd, env=e, stdout=out, stderr=subprocess.STDOUT)
    r = TlcResult()
    r.wall = time.time() - t0
    r.out_path = out_path
    sim_states = 0
    stride = 1
    r.replay_total = 0
    strides = {}
    rx = re.compile(strata[0]) if strata else None

    def stratum(line):
        m = rx.search(line)
        return m.group(1) if m else ""
    if max_replay or strata:
        counts = {}
        with open(out_path, errors="replace") as f:
            for line in f:
                if line.startswith('<<"REPLAY", '):
                    r.replay_total += 1
                    if strata:
                        k = stratum(line)
                        counts[k] = counts.get(k, 0) + 1
        if strata:
            strides = {k: max(1, -(-n // strata[1])) for k, n in counts.items()}
            r.strata_counts = counts
        else:
            stride = max(1, -(-r.replay_total // max_replay))
    import hashlib
    def joined_lines(fh):
        """TLC pretty-prints a long value over several lines: glue them back into one"""
        buf = None
        for raw in fh:
            if buf is not None:
                buf += " " + raw.strip()
                if raw.rstrip().endswith(">>"):
                    yield re.sub(r"^<<\s+", "<<", buf) + "\n"
                    buf = None
                continue
            if raw.startswith("<<") and not raw.rstrip().endswith(">>"):
                buf = raw.rstrip()
                continue
            yield raw
        if buf is not None:
            yield buf + "\n"

    with open(out_path, errors="replace") as f:
        for line in joined_lines(f):
            if line.startswith('<<"REPLAY", '):
                if not (max_replay or strata):
                    r.replay_total += 1
                if strata:
                    stride = strides.get(stratum(line), 1)
                if stride > 1 and int(hashlib.md5(line.encode()).hexdigest()[:8], 16) % stride != 0:
                    continue
                if want_replay:
                    try:
                        r.replay.append(_decode_tlc_string_tuple(line, "REPLAY"))
                    except Exception as ex:  # noqa
                        r.errors.append("undecodable REPLAY line: " + line[:200])
                continue
            if line.startswith("<<"):
                r.printed.append(line.rstrip())
                continue
            m = re.match(r"(\d+) states generated, (\d+) distinct states found", line)
            if m:
                r.generated, r.distinct = int(m.group(1)), int(m.group(2))
            m = re.match(r"Progress: (\d+) states checked, (\d+) traces generated", line)
            if m:
                sim_states = int(m.group(1))
            m = re.match(r"The number of states generated: (\d+)", line)
            if m:
                sim_states = int(m.group(1))
            m = re.match(r"Error: Invariant (\S+) is violated", line)
            if m:
                r.violated.append(m.group(1))
                continue
            m = re.match(r"Error: Action property (\S+) is violated", line)
            if m:
                r.violated.append(m.group(1))
                continue
            if line.startswith("Error: Temporal properties were violated"):
                r.violated.append("temporal")
                continue
            if line.startswith("Error:") and "The behavior up to this point" not in line \
                    and "The first argument of Assert" not in line:
                r.errors.append(line.strip())
    if simulate and r.generated == 0:
        r.generated = r.distinct = sim_states
    if p.returncode == 124:
        r.errors.append(f"TLC timed out after {timeout}s")
    ctx.tlc_runs.append(dict(module=module, cfg=cfg, generated=r.generated, distinct=r.distinct,
                             wall=round(r.wall, 1), mode="simulate" if simulate else "bfs",
                             violated=sorted(set(r.violated)), replay=len(r.replay)))
    ctx.states += r.distinct
    ctx.transitions += r.generated
    log(f"[tlc] {module}/{cfg}: {r.generated} generated, {r.distinct} distinct, {len(r.replay)} behaviours, "
        f"{r.wall:.1f}s" + (f", VIOLATED {sorted(set(r.violated))}" if r.violated else "")
        + (f", errors {r.errors[:2]}" if r.errors else ""))
    return r


def run_judge(ctx, module, trace_path, *, cfg=None, timeout=1800, heap="12g"):
    """Trace validation: TLC runs spec/<module>.tla over the ndjson file. Returns
    (consumed, bad) where bad is a list of (line_number, [failed predicate names])."""
    cfg = cfg or (module + ".cfg")
    n = sum(1 for _ in open(trace_path))
    if n == 0:
        return 0, [], []
    cap = os.environ.get("VERIF_CAPTURE_DIR")
    if cap:   # selftest: keep the head of the first trace each judge configuration sees
        dst = os.path.join(cap, f"{module}__{cfg}.ndjson")
        if not os.path.exists(dst):
            os.makedirs(cap, exist_ok=True)
            want = int(os.environ.get("VERIF_CAPTURE_N", "1500"))
            step = max(1, n // want)     # evenly spaced, so that every family of the trace is represented
            with open(trace_path) as fi, open(dst, "w") as fo:
                for i, line in enumerate(fi):
                    if i % step == 0:
                        fo.write(line)
    r = run_tlc(ctx, module, cfg, workers=1, env={"TRACE": trace_path}, timeout=timeout, heap=heap,
                want_replay=False, deque=True)
    consumed = None
    bad = []
    notes = []
    for line in r.printed:
        m = re.match(r'<<"CONSUMED",\s*(\d+)\s*>>', line)
        if m:
            consumed = int(m.group(1))
            continue
        m = re.match(r'<<"BAD",\s*(\d+),\s*\{(.*)\}\s*>>', line)
        if m:
            names = [x.strip().strip('"') for x in m.group(2).split(",") if x.strip()]
            bad.append((int(m.group(1)), names))
            continue
        m = re.match(r'<<"NOTE",\s*(\d+),\s*\{(.*)\}\s*>>', line)
        if m:
            names = [x.strip().strip('"') for x in m.group(2).split(",") if x.strip()]
            notes.append((int(m.group(1)), names))
    if r.errors or r.violated:
        raise ToolError(f"trace judge {module} failed: {r.errors[:3]} {r.violated[:3]} (see {r.out_path})")
    if consumed != n:
        raise ToolError(f"trace judge {module} consumed {consumed} of {n} records (see {r.out_path})")
    ctx.judged += n
    log(f"[judge] {module}: {n} records judged, {len(bad)} rejected, {len(notes)} drift notes")
    return n, bad, notes


def run_harness(ctx, args, *, timeout=3600, env=None):
    e = dict(os.environ)
    if env:
        e.update(env)
    e.setdefault("VERIF_SEED", str(ctx.seed))
    t0 = time.time()
    p = subprocess.run(["timeout", str(timeout), BIN] + args, stdout=subprocess.PIPE, stderr=subprocess.PIPE,
                       text=True, env=e)
    if p.returncode != 0:
        raise ToolError(f"harness {' '.join(args[:3])} failed ({p.returncode}): {p.stderr[-2000:]}")
    log(f"[harness] {' '.join(args[:1])}: {p.stdout.strip().splitlines()[-1] if p.stdout.strip() else ''} "
        f"({time.time() - t0:.1f}s)")
    return p.stdout


def write_ndjson(path, recs):
    with open(path, "w") as f:
        for r in recs:
            f.write(json.dumps(r, separators=(",", ":")) + "\n")


def read_ndjson(path):
    with open(path) as f:
        return [json.loads(l) for l in f if l.strip()]


def load_known():
    p = os.path.join(ROOT, "known_findings.json")
    if not os.path.exists(p):
        return {"findings": [], "fixed": []}
    return json.load(open(p))


class Ctx:
    def __init__(self, pid, tier, seed):
        self.id = pid
        self.tier = tier
        self.seed = seed
        self.t0 = time.time()
        self.work = os.path.join(WORK, f"{pid}-{os.getpid()}")
        shutil.rmtree(self.work, ignore_errors=True)
        os.makedirs(self.work, exist_ok=True)
        self.tlc_runs = []
        self.states = 0
        self.transitions = 0
        self.judged = 0
        self.evaluations = 0
        self.nontrivial = 0
        self.samples = []
        self.violations = []     # dicts: key, what, replay(dict)
        self.notes = []
        self.drift = {}
        self.extra = {}
        self.assumptions = []
        self.rule = ""
        self.known = load_known()

    # --- reporting -------------------------------------------------------------------
    def violation(self, key, what, replay):
        """key: stable signature used to match known findings; replay: self-contained dict"""
        self.violations.append(dict(key=key, what=what, replay=replay))

    def drift_note(self, name, n=1):
        self.drift[name] = self.drift.get(name, 0) + n

    def sample(self, s):
        if len(self.samples) < 6:
            self.samples.append(s)

    def model_violation(self, r, what=""):
        """a TLC invariant violated on the specification itself"""
        for name in sorted(set(r.violated)):
            self.violation(f"model:{name}", f"specification invariant {name} violated by TLC {what}",
                           dict(kind="model", invariant=name, tlc_output=r.out_path))
        if r.errors:
            raise ToolError(f"TLC errors: {r.errors[:3]} (see {r.out_path})")

    def finish(self, level="model_checking"):
        os.makedirs(EVIDENCE, exist_ok=True)
        os.makedirs(REPLAYS, exist_ok=True)
        known_keys = {f["key"]: f for f in self.known.get("findings", []) if f.get("property") == self.id}
        fresh, known_hit = [], {}
        for v in self.violations:
            k = v["key"]
            if k in known_keys:
                known_hit.setdefault(k, []).append(v)
            else:
                fresh.append(v)
        for k, vs in known_hit.items():
            print(f"KNOWN-FINDING: property={self.id} {known_keys[k]['what']} [{k}] ({len(vs)} occurrence(s))", flush=True)
        # one replay file per distinct key (first occurrence), capped
        seen = {}
        for v in fresh:
            seen.setdefault(v["key"], []).append(v)
        nfile = 0
        for k, vs in seen.items():
            nfile += 1
            if nfile > 25:
                break
            safe = re.sub(r"[^A-Za-z0-9_.-]+", "_", k)[:80]
            path = os.path.join(REPLAYS, f"{self.id}-{safe}.json")
            if getattr(self, "is_replay", None):
                path = self.is_replay          # a replay run reports against the file it replayed and writes nothing
            else:
                with open(path, "w") as f:
                    json.dump(dict(property=self.id, key=k, what=vs[0]["what"], occurrences=len(vs),
                                   seed=self.seed, tier=self.tier, case=vs[0]["replay"]), f, indent=1)
            print(f"VIOLATION property={self.id} replay={path}  # {vs[0]['what'][:300]} ({len(vs)} occurrence(s))", flush=True)
        wall = time.time() - self.t0
        cov = dict(
            states=self.states, transitions=self.transitions,
            traces_validated_against_impl=self.judged,
            evaluations=max(self.evaluations, self.judged), distinct_nontrivial=self.nontrivial,
            rule=self.rule, samples=self.samples or ["(none)"],
            tlc_runs=self.tlc_runs, drift=self.drift, notes=self.notes[:40],
            known_findings_hit=sorted(known_hit.keys()),
        )
        cov.update(self.extra)
        ev = dict(property_id=self.id, tier=self.tier, seed=self.seed, level=level, coverage=cov,
                  assumptions=self.assumptions, wall_s=round(wall, 1), violations=len(fresh))
        if not getattr(self, "is_replay", None):      # the evidence file describes a whole check run, never a single replayed case
            with open(os.path.join(EVIDENCE, f"{self.id}.json"), "w") as f:
                json.dump(ev, f, indent=1)
        shutil.rmtree(self.work, ignore_errors=True)
        log(f"[{self.id}] tier={self.tier} seed={self.seed} states={self.states} judged={self.judged} "
            f"violations={len(fresh)} known={len(known_hit)} wall={wall:.1f}s")
        return 1 if fresh else 0
