"""C03, C04, C05: parser totality, source locations, content conservation on corpora."""
import glob
import json
import os
import random
import re

from . import core

SYMTEXT = {"LF": "\\n", "CR": "\\r", "TAB": "\\t", "NBSP": "<NBSP>", "TSP": "<TSP>", "W2": "<NBSP>", "W3": "<TSP>",
           "E2": "é", "U2": "É", "L2": "é", "P3": "—", "E4": "😀", "BS": "\\\\", "DEG": "º", "QUOTE": '"'}


def syms_text(syms):
    return "".join(SYMTEXT.get(s, s) for s in syms)


SYMRAW = {"GAP": "", "NSP": " ", "LF": "\n", "CR": "\r", "TAB": "\t", "NBSP": " ", "TSP": " ", "W2": " ", "W3": " ",
          "E2": "é", "U2": "É", "L2": "é", "P3": "—", "E4": "😀", "BS": "\\", "DEG": "º", "QUOTE": '"', "SP": " "}


def syms_raw(syms):
    return "".join(SYMRAW.get(s, s) for s in syms)


def lexer_corpus(ctx, cfgs, cap=None):
    """exhaustive short-string corpus = finished behaviours of MC_Lexer (with predicted tokens); at the thorough tier TLC
    still explores every string, the replay into the library is hash-sampled to `cap` per configuration (each record is
    parsed under several extension sets and held by the recorder, the judge and the driver)"""
    recs = []
    if cap is None and getattr(ctx, "tier", "quick") == "thorough":
        cap = 250000
    for cfg in cfgs:
        r = core.run_tlc(ctx, "MC_Lexer", cfg, workers=8, timeout=3000, max_replay=cap)
        ctx.model_violation(r)
        recs += [dict(input=x["input"], ptoks=x["toks"], src="lexer:" + cfg) for x in r.replay]
    return recs


def repo_corpus():
    """the repository's own inputs: canonical.yaml sources and bench recipes"""
    texts = []
    for p in sorted(glob.glob("/repo/benches/*.cook")):
        texts.append(open(p, encoding="utf-8").read())
    try:
        y = open("/repo/tests/canonical.yaml", encoding="utf-8").read()
        # sources are `source: |` block scalars; take them without a YAML library
        lines = y.splitlines()
        i = 0
        while i < len(lines):
            if lines[i].strip() == "source: |":
                ind = len(lines[i]) - len(lines[i].lstrip()) + 2
                j = i + 1
                buf = []
                while j < len(lines) and (lines[j].startswith(" " * ind) or not lines[j].strip()):
                    buf.append(lines[j][ind:])
                    j += 1
                texts.append("\n".join(buf).rstrip("\n") + "\n")
                i = j
            else:
                i += 1
    except OSError:
        pass
    return [dict(text=t, src="repo") for t in texts]


FRAGMENTS = ["@", "#", "~", "{", "}", "(", ")", "%", "|", "=", ">", ">>", "-", "--", "[-", "-]", ":", ".", "/", "*", "&", "?",
             "+", "\\", "a", "salt", "é", "1", "0", "01", "2.5", "1/2", " ", "  ", "\t", "\n", "\n\n", "\r\n", "\r", ",",
             " ", " ", "—", "😀", "---\n", "---", "k: v\n", "@a{1%kg}", "@&a{}", "#p{}", "~{5%min}", "~t{1 h}",
             "@a|b{}", "@-a", "@+a{2}", "@&(~1)x{}", "@&(=1)x{}", ">> k: v\n", ">> [mode]: steps\n", ">> [duplicate]: ref\n",
             "= S\n", "== S ==\n", "> text\n", "@a(n)", "@a{=2}", "@a{1-2}", "@a{x}", "180 ºC", "5 min", "@a{1 kg}",
             ">> time: 1h30m\n", ">> servings: 2|4\n", "(", ")", "{}", "@{}", "~{}", "#{}", "@a{%}", "@a{1%}", "@a{/}", "@a{1/0}"]


def random_corpus(ctx, n, base_texts):
    """seeded splices, truncations and mutations"""
    rnd = random.Random(ctx.seed)
    out = []
    for _ in range(n):
        mode = rnd.random()
        if mode < 0.5 or not base_texts:
            t = "".join(rnd.choice(FRAGMENTS) for _ in range(rnd.randint(2, 12)))
        else:
            t = rnd.choice(base_texts)
            if len(t) > 400:
                a = rnd.randrange(len(t) - 300)
                t = t[a:a + rnd.randint(50, 300)]
            for _ in range(rnd.randint(1, 4)):
                p = rnd.randrange(len(t) + 1)
                op = rnd.random()
                if op < 0.5:
                    t = t[:p] + rnd.choice(FRAGMENTS) + t[p:]
                elif op < 0.8 and len(t) > 2:
                    q = min(len(t), p + rnd.randint(1, 5))
                    t = t[:p] + t[q:]
                else:
                    t = t[:p]
        out.append(dict(text=t, src="random"))
    return out


def fence_corpus(maxlines=4):
    """`---` fence pairs at every line position of small documents (C05 family)"""
    lines = ["a\n", "---\n", "k: v\n", ">> m: n\n", "@b{1}\n", "\n", "--- \n", "-- c\n", "= s\n", "é: ü\n", " ---\n"]
    out = []
    import itertools
    for n in range(1, maxlines + 1):
        for combo in itertools.product(lines, repeat=n):
            if sum(1 for c in combo if c.startswith("---")) >= 1:
                t = "".join(combo)
                out.append(dict(text=t, src="fences"))
                out.append(dict(text=t.replace("\n", "\r\n"), src="fences"))
                if combo[-1].endswith("\n"):
                    out.append(dict(text=t[:-1], src="fences"))
    # documents that do have a front matter: fence, 1..3 YAML lines, fence, 0..2 body lines
    yaml = ["k: v\n", "title: Bread\n", "é: ü\n", "tags: [a, b]\n"]
    body = ["step @a{1}\n", ">> m: n\n", "\n", "---\n"]
    # the YAML text may start or end with blank / indented lines (its span must still be the input slice)
    # a `---` line inside a block scalar is indented: it is YAML text, not a fence
    for y in ["d: |\n  x\n  ---\n  y\n", "d: >\n  a\n\t---\n  b\nk: v\n", "d: |\n  ---\n"]:
        t = "---\n" + y + "---\nstep @a{1}\n"
        out.append(dict(text=t, src="frontmatter"))
        out.append(dict(text=t.replace("\n", "\r\n"), src="frontmatter"))
    # a front matter that is not read (YAML error, no mapping, a key twice) in front of `>>` lines, bracketed keys among them
    for y in ["title: [unclosed\n", "- a\n- b\n", "just text\n", "42\n", "k: v\nk: w\n"]:
        for b in [">> [foo]: x\nstep\n", ">> [mode]: steps\n>> k: v\n@a\n", ">> k: v\n", "step\n"]:
            t = "---\n" + y + "---\n" + b
            out.append(dict(text=t, src="frontmatter"))
            out.append(dict(text=t.replace("\n", "\r\n"), src="frontmatter"))
    for lead in ["\n", "  \n", "\n\n", " k2: w\n", "é: ü\n\n"]:
        for y in yaml + ["time: x\n", "servings: [1, 1]\n", "a: [\n"]:
            for tail in ["", "\n", " \n"]:
                t = "---\n" + lead + y + tail + "---\nstep\n"
                out.append(dict(text=t, src="frontmatter"))
                out.append(dict(text=t.replace("\n", "\r\n"), src="frontmatter"))
    for ny in range(1, 4):
        for ys in itertools.product(yaml, repeat=ny):
            for nb in range(0, 3):
                for bs in itertools.product(body, repeat=nb):
                    t = "---\n" + "".join(ys) + "---\n" + "".join(bs)
                    out.append(dict(text=t, src="frontmatter"))
                    out.append(dict(text=t.replace("\n", "\r\n"), src="frontmatter"))
                    out.append(dict(text=t[:-1], src="frontmatter"))
    return out


def label_corpus(maxlead=4):
    """diagnostics located by a metadata key or value: a front matter whose offending key sits behind 0..maxlead lines that
    end in 1/2/3/4-byte characters, with both line endings (the key is found by walking the YAML text line by line), and
    values of every checked key made of blanks only / padded with blanks (the label is the trimmed value)"""
    import itertools
    out = []
    leads = ["k: v\n", "t: \u00e9\n", "u: \u20ac\n", "w: \U0001F600\n"]
    keyed = ["time: soon\n", "servings: many\n", "prep time: 1 m\ntime: 2 m\n", "cook time: 1 m\ntime: 2 m\n", "locale: nowhere_\n",
             "time: 1 m\nprep time: 2 m\ncook time: 3 m\n"]
    for n in range(0, maxlead + 1):
        for ls in itertools.product(leads, repeat=n):
            for k in keyed:
                t = "---\n" + "".join(ls) + k + "---\nstep\n"
                out.append(dict(text=t, src="labels"))
                out.append(dict(text=t.replace("\n", "\r\n"), src="labels"))
    for t in [">> prep time: 1 m\n>> time: 2 m\nstep\n", ">> time: 1 m\n>> cook time: 2 m\n>> prep time: 3 m\n", ">> cook time: 5\n\nstep\n\n>> time: 1h\n",
              ">> t\u00e9: x\n>> prep time: 1 m\n>> time: 2 m\n"]:
        out.append(dict(text=t, src="labels"))
        out.append(dict(text=t.replace("\n", "\r\n"), src="labels"))
    blanks = ["", " ", "  ", "\t", " \t ", "\u3000", "\u00a0 ", " x", "x ", " x  ", " \u00e9 "]
    for key in ["servings", "time", "prep time", "cook time", "locale", "tags", "author", "source", "[mode]", "[duplicate]", "[define]",
                "[auto scale]", "title", "k"]:
        for v in blanks:
            for tail in ["\n", "", "\r\n", "\n@a\n"]:
                out.append(dict(text=f">> {key}:{v}{tail}", src="labels"))
                out.append(dict(text=f"@b\n>> {key}:{v}{tail}", src="labels"))
                if not key.startswith("["):
                    out.append(dict(text=f"---\n{key}:{v}\n---{tail}", src="labels"))
    return out


def specials_corpus():
    """characters editors and platforms put into files without being asked: a byte-order mark, zero-width and directional
    marks, NEL / LS / VT / FF, NUL, the replacement character - at the start, after the first line, inside the last word and
    at the end of small documents"""
    base = ["Mix the @flour{200%g} and the eggs\n", ">> k: v\nstep one\n\nstep two\n", "---\ntitle: x\n---\nAdd @salt and ~{5%min} in #pan{}.\n",
            "= Sec\n@a{1} -- c\n[- b -] word\n"]
    specials = ["\ufeff", "\u200b", "\u2028", "\u0085", "\x0b", "\x0c", "\x00", "\u00ad", "\u202e", "\ufffd", "\u3000", "\u2060"]
    out = []
    for b in base:
        nl = b.index("\n") + 1
        for x in specials:
            for t in (x + b, b[:nl] + x + b[nl:], b[:-3] + x + b[-3:], b + x, x + b.replace("\n", "\r\n")):
                out.append(dict(text=t, src="specials"))
    return out


REPEATABLE = [">> k%d: v\n", "@a{%d}\n\n", "@&a{%d}\n", "= s%d\n", "@a%d @b ", "> t%d\n\n", "-- c%d\n", "[- c%d -] ",
              "@a{%d%%kg}(n) ", "~t{%d%%min} ", "#p%d{} ", "\\%d", "@&(~%d)x{} \n\n", ">> time: %dm\n", "@x|y%d{} ",
              ">> [mode]: steps\n@q%d\n", "%d ºC ", "@a{%d-9}", "k%d: v\n",
              # the same wording again and again (no %d): adjacent events that are equal but for their position
              "> Stir well\n", "Tag @ me ", "@a{1} ", "word ", "~{5%%min} ", "#p "]


def repetition_corpus():
    """the same construct k times: diagnostics with many labels, long tables, deep block sequences"""
    out = []
    for unit in REPEATABLE:
        for k in list(range(1, 13)) + [16, 33, 64, 100]:
            t = "".join((unit % i) if "%d" in unit else unit for i in range(1, k + 1))
            out.append(dict(text=t, src="repeat"))
            out.append(dict(text="@a{1}\n\n" + t, src="repeat"))
            if unit.startswith("k%d"):
                out.append(dict(text="---\n" + t + "---\nstep\n", src="repeat"))
    return out


def judge(ctx, prop, trace_cfg, recs_path, recs, clause_prefix=""):
    n, bad, notes = core.run_judge(ctx, "Trace_Parse", recs_path, cfg=trace_cfg)
    for _, names in notes:
        for d in names:
            ctx.drift_note(d)
    bad.sort(key=lambda b: len(recs[b[0] - 1]["input"]))
    for line, names in bad:
        r = recs[line - 1]
        txt = syms_text(r["input"])
        for c in names:
            key = c
            if c == "NoPanic":
                key = "NoPanic:" + re.sub(r"\d+", "N", r.get("panic", r.get("write", "")))[:70]
            ctx.violation(key, f"{prop} clause {c} fails on input {txt[:120]!r} (ext bits {r['ext']})",
                          dict(kind="spans", clause=c, input=r["input"], ext=r["ext"], text=syms_raw(r["input"])))
    return n


def _corpus(ctx, want_fences=False):
    quick = ctx.tier == "quick"
    recs = lexer_corpus(ctx, ["MC_Lexer_quick.cfg"] if quick else ["MC_Lexer_full4.cfg", "MC_Lexer_reduced5.cfg"])
    if quick:
        recs += lexer_corpus(ctx, ["MC_Lexer_reduced4.cfg"])
    # two narrow alphabets reach further: comment terminators behind runs of dashes, what follows a component
    recs += lexer_corpus(ctx, ["MC_Lexer_cmt7.cfg", "MC_Lexer_notes5.cfg"])
    repo = repo_corpus()
    recs += repo
    recs += random_corpus(ctx, 3000 if quick else 60000, [r["text"] for r in repo])
    recs += repetition_corpus()
    if want_fences:
        recs += fence_corpus(3 if quick else 4)
        recs += label_corpus(4 if quick else 5)
        recs += specials_corpus()
    return recs


def _spans_run(ctx, recs, exts):
    pin = os.path.join(ctx.work, "in.ndjson")
    pout = os.path.join(ctx.work, "spans.ndjson")
    core.write_ndjson(pin, recs)
    core.run_harness(ctx, ["spans", "--in", pin, "--out", pout, "--ext", exts])
    return pout, core.read_ndjson(pout)


def _common_evidence(ctx, recs, obs, what):
    ctx.evaluations = len(obs)
    ctx.nontrivial = len({tuple(x["input"]) for x in obs if len(x["input"]) >= 2})
    ctx.rule = ("inputs: every string over the 35-symbol token alphabet (22 markers, letter, digits, blanks, LF, CR, "
                "punctuation, 2/3/4-byte characters) up to the configured length, enumerated by TLC as the finished "
                "behaviours of MC_Lexer (BFS, exhaustive) together with the token stream CookLexer predicts; the "
                "repository's canonical sources and bench recipes; seeded random splices/mutations of those and of a "
                "fragment pool; metadata with located diagnostics (offending keys of a front matter behind 0..4 lines ending in "
                "1..4-byte characters, LF and CRLF; blank-only and padded values of every checked key); small documents with a "
                "byte-order mark, zero-width / directional marks, NEL, LS, VT, FF, NUL at their start, second line, last word and end; " + what + ". Each input runs under Extensions::empty() and all(). "
                "non-trivial = distinct inputs of at least two characters")
    for x in obs[1000:1003] + obs[-2:]:
        ctx.sample(dict(input=syms_text(x["input"])[:200], ext=x["ext"], events=x["evk"][:12], tokens=len(x["toks"])))
    ctx.assumptions = ["TLC and the CommunityModules JSON reader are trusted",
                       "the recorder (harness/cookverif/src/prec.rs) copies spans verbatim from the public API and hook H1",
                       "char classes of the symbol alphabet are those of Rust's char / finl_unicode (self-checked at start-up)"]


def _kernel_phase(ctx, prop, cfg):
    """the inputs of the parser kernels under extension subsets that switch single gates: inside braces and after a
    marker the span arithmetic is its own (quantity value and unit, modifiers, notes, aliases)"""
    from . import p_parser
    kin = [dict(input=x, src="parser-kernels") for x in p_parser.kernel_strings(p_parser.KERNELS[ctx.tier])]
    if len(kin) > 400000:
        import random
        kin = random.Random(ctx.seed).sample(kin, 400000)
    pin = os.path.join(ctx.work, "kin.ndjson")
    pout = os.path.join(ctx.work, "kspans.ndjson")
    core.write_ndjson(pin, kin)
    core.run_harness(ctx, ["spans", "--in", pin, "--out", pout, "--ext", "all,1770,3298,2"])
    obs = core.read_ndjson(pout)
    judge(ctx, prop, cfg, pout, obs)
    ctx.extra["parser_kernel_inputs_through_the_span_recorder"] = len(kin)


def check_c04(ctx):
    core.build_harness()
    recs = _corpus(ctx, want_fences=True)
    pout, obs = _spans_run(ctx, recs, "none,all")
    judge(ctx, "C04", "Trace_Parse_C04.cfg", pout, obs)
    _kernel_phase(ctx, "C04", "Trace_Parse_C04.cfg")
    _common_evidence(ctx, recs, obs, "multi-byte characters are adjacent to every marker in both orders at length <= 3")
    ctx.extra["exhaustive"] = True
    from . import p_parser
    p_parser.conformance(ctx, "C04")


def check_c05(ctx):
    core.build_harness()
    recs = _corpus(ctx, want_fences=True)
    pout, obs = _spans_run(ctx, recs, "none,all")
    judge(ctx, "C05", "Trace_Parse_C05.cfg", pout, obs)
    _kernel_phase(ctx, "C05", "Trace_Parse_C05.cfg")
    _common_evidence(ctx, recs, obs, "plus `---` fence lines at every line position of documents of up to 4 lines")
    ctx.extra["exhaustive"] = True


def _replay(ctx, case, prop, cfg):
    core.build_harness()
    c = case["case"]
    pout, obs = _spans_run(ctx, [dict(text=c["text"])], str(c["ext"]))
    judge(ctx, prop, cfg, pout, obs)
    print("events:", obs[0]["evk"], "tokens:", obs[0]["toks"])
    return ctx.finish()


def replay_c04(ctx, case):
    if case["case"].get("kind") == "parser":
        from . import p_parser
        return p_parser.replay(ctx, case, "C04")
    return _replay(ctx, case, "C04", "Trace_Parse_C04.cfg")


def replay_c05(ctx, case):
    return _replay(ctx, case, "C05", "Trace_Parse_C05.cfg")


# ------------------------------------------------------------------------------------------ C03
STANDARD_PROGRAMS = [
    ["parse", "report_write", "metadata_only", "events", "build_ast", "output", "accessors", "serialize", "scale",
     "accessors", "serialize", "group_ingredients", "group_cookware", "ingredient_list", "categorize",
     "convert_metric", "convert_imperial", "group_ingredients", "accessors", "serialize"],
    ["parse", "output", "scale_servings", "convert_imperial", "convert_metric", "ingredient_list", "serialize"],
    ["parse", "output", "default_scale", "convert_imperial", "group_ingredients", "categorize", "accessors"],
]

META_BOUNDARY = ["time: 71582789h", "time: 71582788h", "time: 1193046h 28m", "time: inf", "time: -5", "time: 4294967296",
                 "time: 99999999999 min", "time: 1e400", "time: NaN", "prep time: 4294967295m", "cook time: 1h61m",
                 "time: 4294967295", "time: 4294967296m", "time: 0.5 d", "time: 1 h 30 min", "time: 9999999999999999999h",
                 "servings: 4294967296", "servings: 2|2", "servings: -1", "servings: 99999999999999999999",
                 "time: 35791394h8m", "time: 35791394h7m", "time: 1h4294967295m", "time: 71582788h16m", "time: 1.5.5 h",
                 "time: 1 lightyear", "time: . h", "tags: a,,b", "locale: en_GBX", "author: <>", "source: a <b> <c>",
                 "servings: []", "serves: []", "yield: []", "servings: [0]", "servings: 0", "tags: []", "time: {}", "author: {}", "servings: [[2]]",
                 "time: 30m1h", "time: 5m5m", "locale: en_GB_posix", "servings: 0|0"]


def meta_boundary_corpus():
    out = []
    for v in META_BOUNDARY:
        out.append(dict(text=">> " + v + "\n@a{1}\n", src="meta"))
        out.append(dict(text="---\n" + v + "\n---\n@a{1}\n", src="meta"))
    return out


QB_VALUES = ["32767", "32768", "40000", "65535", "65536", "0", "0.0000001", "1/3", "0.33", "3", "2 1/2", "99999", "4000000001", "1e300", "179769313486231570" + "0" * 290, "1" + "0" * 400,
             "0.5-3", "3-0.5", "1-1" + "0" * 305, "some", "1/0", "0/1", "4294967296/3", "1 4294967296/7"]
QB_UNITS = ["", "ml", "l", "vat", "tsp", "c", "cups", "dr", "g", "kg", "oz", "lb", "C", "\u00baF", "s", "min", "h", "d", "ae", "bag", "big vat"]


def quantity_boundary_corpus():
    """amounts at the edges of f64 and u32 in every unit of the extreme converter (recorder: prec::EXTREME_UNITS - ratios of
    1e300 and 1e-300, fractions enabled everywhere with the widest limits, offsets) as ingredient, reference pair, timer,
    inline quantity and duration"""
    out = []
    for v in QB_VALUES:
        for u in QB_UNITS:
            q = v + ("%" + u if u else "")
            out.append(dict(text=f"@a{{{q}}} and @&a{{{q}}} then @a{{1%{u or 'g'}}} ~t{{{q}}} #p{{{v}}}\n", src="qb"))
            if u == "" and " " not in v and "/" not in v and "-" not in v and "." not in v:
                # the same digits as the target of an intermediate reference, in its four forms
                out.append(dict(text=f"@a{{1}}\n\n@&({v})a{{}} @&(~{v})a{{}} then\n\n= s\n@&(={v})a{{}} @&(=~{v})a{{}}\n", src="qb"))
            if " " not in v and "/" not in v and u:
                out.append(dict(text=f">> servings: 2|4\n>> time: {v} {u}\nHeat to {v} {u} and {v}{u}. @b{{=%{u}}} @b{{{q}}}\n", src="qb"))
    return out


def _calls(ctx, argv, pout):
    """runs the `calls` recorder; a call that does not return within the watchdog limit ends the recorder (exit 3) and
    leaves one record with timeout = true, which the judge rejects (NoHang) - it is data, not a tool error"""
    try:
        core.run_harness(ctx, argv)
    except core.ToolError:
        if os.path.exists(pout + ".timeout"):
            os.replace(pout + ".timeout", pout)
        else:
            raise


def check_c03(ctx):
    core.build_harness()
    quick = ctx.tier == "quick"
    r = core.run_tlc(ctx, "MC_Api", "MC_Api_quick.cfg" if quick else "MC_Api_thorough.cfg", workers=4)
    ctx.model_violation(r)
    programs = [dict(prog=p) for p in STANDARD_PROGRAMS] + [dict(prog=x["prog"]) for x in r.replay]
    recs = _corpus(ctx, want_fences=True) + meta_boundary_corpus()
    # the boundary metadata values run through EVERY program (they are few): scale_to_servings after `servings: []`, ...
    pinb = os.path.join(ctx.work, "inb.ndjson")
    poutb = os.path.join(ctx.work, "callsb.ndjson")
    core.write_ndjson(pinb, meta_boundary_corpus())
    core.write_ndjson(os.path.join(ctx.work, "programs.ndjson"), programs)
    _calls(ctx, ["calls", "--in", pinb, "--programs", os.path.join(ctx.work, "programs.ndjson"), "--out", poutb, "--ext", "none,all",
                 "--conv", "e,b", "--fixed", str(len(programs))], poutb)
    # amounts at the edges of f64 / u32 in every unit of a converter at the edges of what a units file may say, and the
    # documents CookDoc writes (references with text / numeric / no quantity, modes, intermediate references, defects)
    from .p_doc import gen_docs, text_of
    walks = []
    for cfg, k in [("MC_Doc_sim_ext.cfg", 300 if quick else 4000), ("MC_Doc_sim_canon.cfg", 150 if quick else 2000), ("MC_Doc_cw2.cfg", None)]:
        walks += [dict(text=text_of(d), src="cookdoc") for d in (gen_docs(ctx, cfg, simulate=k) if k else gen_docs(ctx, cfg, max_n=3000 if quick else 30000))]
    core.write_ndjson(pinb + ".q", quantity_boundary_corpus() + walks)
    _calls(ctx, ["calls", "--in", pinb + ".q", "--programs", os.path.join(ctx.work, "programs.ndjson"), "--out", poutb + ".q",
                 "--ext", "all,compat", "--conv", "x,b", "--fixed", str(len(programs))], poutb + ".q")
    pin = os.path.join(ctx.work, "in.ndjson")
    pprog = os.path.join(ctx.work, "programs.ndjson")
    pout = os.path.join(ctx.work, "calls.ndjson")
    core.write_ndjson(pin, recs)
    core.write_ndjson(pprog, programs)
    try:
        core.run_harness(ctx, ["calls", "--in", pin, "--programs", pprog, "--out", pout, "--ext", "none,all,compat",
                               "--conv", "e,b", "--fixed", "3", "--rotate", "1" if quick else "3"])
    except core.ToolError as e:
        if os.path.exists(pout + ".timeout"):
            os.replace(pout + ".timeout", pout)
        else:
            raise
    obs = core.read_ndjson(pout)
    n, bad, _ = core.run_judge(ctx, "Trace_Api", pout)
    # the inputs of the parser kernels (component, quantity, modifier, block, escape, path-like names): the pull parser
    # under the kernels' extension subsets (judged by Trace_Parser), then the API programs under subsets that switch
    # single gates (MODIFIERS alone, all but INTERMEDIATE / ADVANCED_UNITS / ALIAS+RANGE / TIMER_REQ+MODES, MODES alone)
    from . import p_parser
    kin = []
    p_parser.conformance(ctx, "C03", collect=kin, with_documents=False)
    pin2 = os.path.join(ctx.work, "in2.ndjson")
    pout2 = os.path.join(ctx.work, "calls2.ndjson")
    core.write_ndjson(pin2, [dict(input=x, src="parser-kernels") for x in kin])
    _calls(ctx, ["calls", "--in", pin2, "--programs", pprog, "--out", pout2, "--ext", "2,1770,3786,3298,64,2730",
                 "--conv", "b", "--fixed", "2", "--rotate", "1"], pout2)
    obs2 = core.read_ndjson(pout2)
    n2, bad2, _ = core.run_judge(ctx, "Trace_Api", pout2)
    obs3 = core.read_ndjson(poutb)
    n3, bad3, _ = core.run_judge(ctx, "Trace_Api", poutb)
    obs4 = core.read_ndjson(poutb + ".q")
    n4, bad4, _ = core.run_judge(ctx, "Trace_Api", poutb + ".q")
    bad = ([(l, nm) for l, nm in bad] + [(len(obs) + l, nm) for l, nm in bad2] + [(len(obs) + len(obs2) + l, nm) for l, nm in bad3]
           + [(len(obs) + len(obs2) + len(obs3) + l, nm) for l, nm in bad4])
    obs = obs + obs2 + obs3 + obs4
    bad.sort(key=lambda b: len(obs[b[0] - 1]["input"]))
    for line, names in bad:
        x = obs[line - 1]
        txt = syms_text(x["input"])
        for c in names:
            key = c
            what = f"C03 clause {c} fails on input {txt[:120]!r}"
            if c == "EveryCallReturns":
                failed = [k for k in x["calls"] if k["st"] != "ret"]
                if failed:
                    key = f"EveryCallReturns:{failed[0]['c']}:" + re.sub(r"\d+", "N", failed[0].get('sig', ''))[:70]
                    what = f"C03: call {failed[0]['c']} did not return ({failed[0].get('sig', '')[:160]}) on input {txt[:120]!r}"
            ctx.violation(key, what, dict(kind="calls", clause=c, input=x["input"], text=syms_raw(x["input"]), calls=x["calls"]))
    ctx.evaluations = sum(x.get("cfgs", 1) for x in obs)
    ctx.nontrivial = len({tuple(x["input"]) for x in obs if len(x["input"]) >= 2})
    ctx.rule = ("inputs: exhaustive short strings over the 35-symbol token alphabet (finished behaviours of MC_Lexer), "
                "repository recipes, seeded random splices, fence/front-matter families, boundary metadata values; each "
                "input x {no extensions, all, compat} x {empty, bundled converter} runs three standard API programs and "
                "rotating TLC-generated programs of the CookApi protocol (MC_Api) with a per-input watchdog; amounts at the edges "
                "of f64 / u32 in every unit of an extreme converter (ratios 1e300 and 1e-300, fractions everywhere with the widest "
                "limits, offsets) and CookDoc's generated documents (random walks and the cookware reference kernel) run every program. "
                "evaluations = input x configuration x program runs; non-trivial = distinct inputs of >= 2 characters")
    ctx.extra["programs"] = len(programs)
    ctx.extra["exhaustive"] = True
    for x in obs[2000:2002] + obs[-2:]:
        ctx.sample(dict(input=syms_text(x["input"])[:160], calls=[c["c"] + ":" + c["st"] for c in x["calls"]][:20]))
    ctx.assumptions = ["TLC and the CommunityModules JSON reader are trusted",
                       "catch_unwind observes every panic (the harness is built with debug assertions and overflow checks on)",
                       "a call sequence on one input is a hang if it does not return within 60 s"]


def replay_c03(ctx, case):
    core.build_harness()
    c = case["case"]
    if c.get("kind") == "parser":
        from . import p_parser
        return p_parser.replay(ctx, case, "C03")
    pin = os.path.join(ctx.work, "in.ndjson")
    pprog = os.path.join(ctx.work, "programs.ndjson")
    pout = os.path.join(ctx.work, "calls.ndjson")
    core.write_ndjson(pin, [dict(text=c["text"])])
    core.write_ndjson(pprog, [dict(prog=p) for p in STANDARD_PROGRAMS] + [dict(prog=[k["c"] for k in c["calls"]])])
    core.run_harness(ctx, ["calls", "--in", pin, "--programs", pprog, "--out", pout, "--ext", "none,all,compat,2,1770,3786,3298,64,2730",
                           "--conv", "e,b,x", "--fixed", "4"])
    obs = core.read_ndjson(pout)
    n, bad, _ = core.run_judge(ctx, "Trace_Api", pout)
    for line, names in bad:
        print("rejected:", names, obs[line - 1]["calls"])
        ctx.violation("replay", "replayed case still fails", dict(calls=obs[line - 1]["calls"]))
    return ctx.finish()
