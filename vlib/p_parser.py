"""The parser model (spec/CookParser.tla: block splitting, metadata, sections, text blocks, steps, components,
quantities as a transcription of src/parser over CookLexer's tokens) bound to the real PullParser.

TLC enumerates every symbol string up to a bound over several kernel alphabets (components, quantities, modifiers,
blocks, escapes/comments/multi-byte, wrapped lines) x extension sets, checks the design invariants on every state
(events located in order, brackets closed after each block, progress, functional, C05 coverage on the specification)
and prints the predicted events; the real parser's events for the same inputs are recorded and TLC judges them
(spec/Trace_Parser.tla) with the clauses the calling property owns. Full equality with the prediction is drift."""
import json
import os

from . import core

KERNELS = {
    "quick": ["comp3", "qty3", "qtycw3", "qtytm3", "mod3", "modcw3", "modtm3", "block3", "esc3", "wrap3", "path4"],
    "thorough": ["comp4", "qty4", "qtycw4", "qtytm4", "mod4", "modcw4", "modtm4", "block4", "esc4", "wrap4", "path5"],
}
# the kernels as data (spec/MC_Parser_<name><n>.cfg are written from this table by `python3 -m vlib.p_parser`):
# name -> (alphabet, prefix, suffix, extension choices, old-style-metadata choices)
COMP = ["@", "#", "~", "{", "}", "(", ")", "%", "|", "=", "&", "a", "1", " "]
QTY = ["1", "0", "2", "/", ".", "-", " ", "%", "a", "=", "|", "NBSP"]
MOD = ["@", "&", "?", "+", "-", "(", ")", "~", "=", "1", "0", " "]
KERNEL_DEFS = {
    "comp": (COMP, [], [], "ExtAllNone", "OnlyOsm"),
    "qty": (QTY, ["@", "a", "{"], ["}"], "ExtMany", "OnlyOsm"),
    "qtycw": (QTY, ["#", "a", "{"], ["}"], "ExtAllNone", "OnlyOsm"),
    "qtytm": (QTY, ["~", "a", "{"], ["}"], "ExtMany", "OnlyOsm"),
    "mod": (MOD, ["@"], ["a", "{", "}"], "ExtMany", "OnlyOsm"),
    "modcw": (MOD, ["#"], ["a", "{", "}"], "ExtAllNone", "OnlyOsm"),
    "modtm": (["@", "&", "?", "+", "-", "(", ")", "|", "=", "1", " ", "a"], ["~"], ["a", "{", "}"], "ExtMany", "OnlyOsm"),
    "block": ([">", ":", "=", "a", " ", "LF", "@", "-", "[", "]", "{", "}"], [], [], "ExtModes", "BothOsm"),
    "esc": (["BS", "@", "{", "}", "a", "E2", " ", "LF", "[", "-", "]", "(", ")", "E4", "TSP"], [], [], "ExtAllNone", "OnlyOsm"),
    "wrap": (COMP, [], ["LF", "a"], "ExtAllNone", "OnlyOsm"),
    "path": ([".", "/", "BS", "a", " ", "@", "&"], ["@"], ["{", "}"], "ExtAllNone", "OnlyOsm"),
}
SEQ_NAMES = {(): "NoSeq", ("@", "a", "{"): "PfxIgrBrace", ("#", "a", "{"): "PfxCwBrace", ("~", "a", "{"): "PfxTmBrace", ("}",): "SfxBrace",
             ("@",): "PfxIgr", ("#",): "PfxCw", ("~",): "PfxTm", ("a", "{", "}"): "SfxName", ("LF", "a"): "SfxLine", ("{", "}"): "SfxBraces"}


def kernel_strings(names):
    """the inputs of the kernels (prefix + every body up to the kernel's length + suffix) without running TLC"""
    import itertools
    import re
    seen = set()
    out = []
    for k in names:
        m = re.match(r"([a-z]+)(\d+)$", k)
        alpha, pfx, sfx, _, _ = KERNEL_DEFS[m.group(1)]
        for n in range(0, int(m.group(2)) + 1):
            for body in itertools.product(alpha, repeat=n):
                t = tuple(pfx) + body + tuple(sfx)
                if t not in seen:
                    seen.add(t)
                    out.append(list(t))
    return out


def write_cfgs():
    for name, (alpha, pfx, sfx, ext, osm) in KERNEL_DEFS.items():
        for n in (3, 4, 5):
            with open(os.path.join(core.SPEC, f"MC_Parser_{name}{n}.cfg"), "w") as f:
                f.write("CONSTANTS\n  Alphabet = {" + ", ".join(json.dumps(a) for a in alpha) + "}\n"
                        f"  MaxLen = {n}\n  Prefix <- {SEQ_NAMES[tuple(pfx)]}\n  Suffix <- {SEQ_NAMES[tuple(sfx)]}\n"
                        f"  ExtChoices <- {ext}\n  OsmChoices <- {osm}\nINIT MCInit\nNEXT MCNext\n"
                        "INVARIANTS InvOrdered InvBracketed InvProgress2 InvFunctional2 NoStuck2 InvCovered Emit2\nCHECK_DEADLOCK FALSE\n")


CLAUSE_TEXT = {
    "C01": "RecipeReadAsSpecified: an input the specification reads without a diagnostic is a recipe of the language; its "
           "events (components, names, aliases, modifiers, intermediate references, quantities, notes, texts, metadata, "
           "sections - not their positions) must be exactly the specified ones",
    "C04": "EventsLocatedInOrder / EventsBracketed: located events lie inside the input, in source order, without overlap, "
           "inside properly closed step / text brackets",
    "C03": "Returns / EventsBracketed: the pull parser returns for every input of the kernels under every extension set of the "
           "kernel, and its events respect the protocol the analysis relies on",
    "C07": "SilentWhenSpecifiedSilent / DiagnosedAsSpecified: no diagnostic where the specification raises none; every "
           "specified diagnostic is raised with that severity and class on a label touching the specified one",
}


def text_of(rec):
    from .p_doc import text_of as t
    return t(dict(text=rec["input"]))


def conformance(ctx, prop, kernels=None, max_per_kernel=None, collect=None, with_documents=True):
    """runs the kernels, returns the number of records judged; `collect`: a list that receives the distinct inputs"""
    quick = ctx.tier == "quick"
    total = 0
    drift = 0
    silent = 0
    for k in kernels or KERNELS[ctx.tier]:
        r = core.run_tlc(ctx, "MC_Parser", f"MC_Parser_{k}.cfg", workers=8, timeout=3000,
                         max_replay=max_per_kernel or (None if quick else 400000))
        ctx.model_violation(r, f"(parser kernel {k})")
        if collect is not None:
            seen = {tuple(x) for x in collect}
            for x in r.replay:
                t = tuple(x["input"])
                if t not in seen:
                    seen.add(t)
                    collect.append(x["input"])
        pin = os.path.join(ctx.work, f"pp_{k}.ndjson")
        pout = os.path.join(ctx.work, f"pp_{k}_obs.ndjson")
        core.write_ndjson(pin, r.replay)
        core.run_harness(ctx, ["events", "--in", pin, "--out", pout])
        n, bad, notes = core.run_judge(ctx, "Trace_Parser", pout, cfg=f"Trace_Parser_{prop}.cfg")
        total += n
        drift += len(notes)
        if bad or notes:
            obs = core.read_ndjson(pout)
            for line, names in bad:
                x = obs[line - 1]
                for c in names:
                    ctx.violation(f"parser:{c}", f"{prop} clause {c} (parser model, kernel {k}): input {text_of(x)!r} ext {sorted(x['ext'])} "
                                  f"osm {x['osm']}: specified {json.dumps(x['evs'])[:500]} observed {json.dumps(x['obs'])[:500]}"[:1500],
                                  dict(kind="parser", clause=c, input=x["input"], ext=x["ext"], osm=x["osm"]))
            for line, names in notes[:3]:
                x = obs[line - 1]
                ctx.notes.append(f"parser drift (kernel {k}): {text_of(x)!r}: specified {json.dumps(x['evs'])[:300]} observed {json.dumps(x['obs']['evs'])[:300]}")
        silent += sum(1 for x in r.replay if not any(e["k"] in ("Error", "Warning") for e in x["evs"]))
    if drift:
        ctx.drift_note("ParserExactlyAsSpecified", drift)
    ctx.extra["parser_model"] = dict(kernels=kernels or KERNELS[ctx.tier], records=total, drift=drift,
                                     inputs_read_without_diagnostic=silent, clauses=CLAUSE_TEXT[prop])
    if with_documents:
        total += documents(ctx, prop)
    return total


# symbols CookLexer classifies (anything else would be lexed differently by the specification than by the library)
KNOWN = set("abcdefghijklmnopqrstuvwxyzABCDEFGHIJKLMNOPQRSTUVWXYZ0123456789@#~{}()%|=>-:./*&?+[],!';_$<^` ") | {
    "L2", "L3", "L4", "E2", "DEG", "E4", "TAB", "W2", "W3", "NBSP", "TSP", "P3", "QUOTE", "BS", "LF", "CR"}


def documents(ctx, prop):
    """whole documents: the judge runs the specification (CookLexer + CookParser) on the text itself.
    CookDoc walks under the extended and the canonical parser, the structure kernel, the repository's recipes."""
    from .p_doc import gen_docs
    from .p_parse import repo_corpus
    quick = ctx.tier == "quick"
    n = 150 if quick else 4000
    docs = gen_docs(ctx, "MC_Doc_sim_ext.cfg", simulate=n) + gen_docs(ctx, "MC_Doc_sim_canon.cfg", simulate=n // 2) \
        + gen_docs(ctx, "MC_Doc_simdef_ext.cfg", simulate=n // 2) + ([] if quick else gen_docs(ctx, "MC_Doc_struct.cfg", max_n=6000))
    recs = [dict(text=d["text"], ext=d["ext"], src="cookdoc") for d in docs]
    allext = ["MODIFIERS", "ALIAS", "ADVANCED_UNITS", "MODES", "INLINE", "RANGE", "TIMER_REQ", "INTERMEDIATE"]
    for t in repo_corpus():
        for e in (allext, []):
            recs.append(dict(text=t["text"], ext=e, src="repo"))
    # `---` lines at every position of small documents, with LF / CRLF / no final newline: the front matter split
    from .p_parse import fence_corpus
    import random
    fences = fence_corpus(3)
    fences = fences if len(fences) <= (2500 if quick else 20000) else random.Random(ctx.seed).sample(fences, 2500 if quick else 20000)
    recs += [dict(text=f["text"], ext=allext, src="fences") for f in fences]
    pin = os.path.join(ctx.work, "pd_in.ndjson")
    pout = os.path.join(ctx.work, "pd_obs.ndjson")
    core.write_ndjson(pin, recs)
    core.run_harness(ctx, ["events", "--whole", "--in", pin, "--out", pout])
    obs = core.read_ndjson(pout)
    keep = [x for x in obs if all(c in KNOWN for c in x["input"]) and len(x["input"]) <= 3200]
    skipped = len(obs) - len(keep)
    pk = os.path.join(ctx.work, "pd_keep.ndjson")
    core.write_ndjson(pk, keep)
    nrec, bad, notes = core.run_judge(ctx, "Trace_Parser", pk, cfg=f"Trace_Parser_{prop}.cfg", timeout=3000)
    for line, names in bad:
        x = keep[line - 1]
        for c in names:
            ctx.violation(f"parser:{c}", f"{prop} clause {c} (parser model on a whole document, {x['src']}): {text_of(x)[:300]!r} ext {sorted(x['ext'])}: "
                          f"observed {json.dumps(x['obs'])[:600]}"[:1500],
                          dict(kind="parser", clause=c, input=x["input"], ext=x["ext"], osm=True, whole=True))
    for line, names in notes[:3]:
        x = keep[line - 1]
        ctx.notes.append(f"parser drift (document, {x['src']}): {text_of(x)[:200]!r}")
    if notes:
        ctx.drift_note("ParserExactlyAsSpecified(documents)", len(notes))
    ctx.extra["parser_model_documents"] = dict(judged=nrec, skipped_for_unclassified_characters_or_length=skipped, drift=len(notes),
                                               sources=dict(cookdoc=sum(1 for x in keep if x["src"] == "cookdoc"), repo=sum(1 for x in keep if x["src"] == "repo"),
                                                            fences=sum(1 for x in keep if x["src"] == "fences")),
                                               with_front_matter=sum(1 for x in keep if x["obs"]["evs"] and x["obs"]["evs"][0]["k"] == "FrontMatter"))
    return nrec


def replay(ctx, case, prop):
    core.build_harness()
    c = case["case"]
    pin = os.path.join(ctx.work, "pp_in.ndjson")
    pout = os.path.join(ctx.work, "pp_obs.ndjson")
    # no `evs` in the record: the judge computes them from the input
    if c.get("whole"):
        core.write_ndjson(pin, [dict(text=list(c["input"]), ext=c["ext"])])
        core.run_harness(ctx, ["events", "--whole", "--in", pin, "--out", pout])
    else:
        core.write_ndjson(pin, [dict(input=c["input"], ext=c["ext"], osm=c["osm"])])
        core.run_harness(ctx, ["events", "--in", pin, "--out", pout])
    n, bad, notes = core.run_judge(ctx, "Trace_Parser", pout, cfg=f"Trace_Parser_{prop}.cfg")
    obs = core.read_ndjson(pout)
    print("observed:", json.dumps(obs[0]["obs"])[:2000])
    for line, names in bad:
        for cl in names:
            ctx.violation(f"parser:{cl}", f"still fails: {cl}", dict(kind="parser", clause=cl, input=c["input"], ext=c["ext"], osm=c["osm"]))
    return ctx.finish()


if __name__ == "__main__":
    write_cfgs()
    print("kernel configurations written")
