"""./check setup: build the harness offline and SANY-parse every specification module."""
import os
import subprocess

from . import core


def run():
    core.build_harness()
    bad = 0
    for f in sorted(os.listdir(core.SPEC)):
        if not f.endswith(".tla"):
            continue
        p = subprocess.run(["java", "-cp", core.TLA_CP, "tla2sany.SANY", f], cwd=core.SPEC,
                           stdout=subprocess.PIPE, stderr=subprocess.STDOUT, text=True)
        ok = p.returncode == 0 and "Semantic errors" not in p.stdout and "Fatal errors" not in p.stdout \
            and "*** Errors" not in p.stdout and "Could not parse" not in p.stdout
        print(("ok   " if ok else "FAIL ") + f, flush=True)
        if not ok:
            print(p.stdout[-1500:])
            bad += 1
    out = subprocess.run([core.BIN, "selfcheck"], stdout=subprocess.PIPE, text=True)
    print("harness selfcheck:", out.stdout.strip())
    return 2 if bad or out.returncode else 0
