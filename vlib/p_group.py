"""C10: grouping and listing ingredients conserves quantities."""
import os

from . import core
from .p_doc import gen_docs, text_of


def check_c10(ctx):
    core.build_harness()
    quick = ctx.tier == "quick"
    # (a) add / merge sequences on GroupedQuantity
    r = core.run_tlc(ctx, "MC_Group", "MC_Group_quick.cfg" if quick else "MC_Group_thorough.cfg", workers=8, timeout=3000,
                     max_replay=None if quick else 400000)
    ctx.model_violation(r)
    pin = os.path.join(ctx.work, "g_in.ndjson")
    pout = os.path.join(ctx.work, "g_obs.ndjson")
    core.write_ndjson(pin, r.replay)
    # the standard definitions of the specification measure the totals of the bundled-converter sweep
    import json
    rc = core.run_tlc(ctx, "MC_Convert", "MC_Convert.cfg", workers=8, timeout=3000, want_replay=False)
    std = None
    for line in rc.printed:
        if line.startswith('<<"STD", '):
            std = json.loads(json.loads(line[len('<<"STD", '):].rstrip()[:-2]))
    if std is None:
        raise core.ToolError("MC_Convert did not print the standard definitions")
    pstd = os.path.join(ctx.work, "std.json")
    json.dump(std, open(pstd, "w"))
    core.run_harness(ctx, ["group", "--in", pin, "--out", pout, "--std", pstd])
    obs = core.read_ndjson(pout)
    n, bad, _ = core.run_judge(ctx, "Trace_Group", pout)
    bad.sort(key=lambda b: len(obs[b[0] - 1]["ops"]))
    for line, names in bad:
        x = obs[line - 1]
        ops = [(o["op"], o["g"], (o["q"]["lo"] / 4, o["q"]["hi"] / 4, o["q"]["unit"], o["q"]["txt"])) for o in x["ops"]]
        for c in names:
            if x.get("kind") == "bundledfit":
                ctx.violation("group:" + c + ":" + x["unit"], f"C10 clause {c}: totals in {x['unit']} with the bundled converter: {x['bad']} of {x['cases']} "
                                                              f"two-halves totals change the amount after fit (first: {x['first']}), {x['panics']} panics",
                              dict(kind="group", clause=c, unit=x["unit"], first=x["first"]))
                continue
            ctx.violation("group:" + c, f"C10 clause {c}: operations {ops} -> observed {x['obs']['steps'][-1:] if x['obs'].get('steps') else x['obs']}",
                          dict(kind="group", clause=c, ops=x["ops"], obs=x["obs"]))
    nseq = len(obs)
    # (b) recipes: group_ingredients, IngredientList, categorize
    cap = 8000 if quick else 120000
    docs = gen_docs(ctx, "MC_Doc_ref3s.cfg" if quick else "MC_Doc_ref3.cfg", max_n=cap)
    docs += gen_docs(ctx, "MC_Doc_sim_ext.cfg", simulate=1500 if quick else 30000)
    docs = [dict(text=d["text"], pred=d["pred"]) for d in docs if d["pred"]["valid"]]
    # ingredients that name another recipe file (a path) are listed like any other, with the quantities of their references
    for t in ["@./sauces/bolognese{800%g} and @&./sauces/bolognese{200%g} @salt{1%tsp}\n", "@../x/y{1%kg} @b{2} @&../x/y{500%g}\n",
              "@./a{2} @&./a{3} @./a/b{1%l}\n"]:
        docs.append(dict(text=t))
    pin2 = os.path.join(ctx.work, "l_in.ndjson")
    pout2 = os.path.join(ctx.work, "l_obs.ndjson")
    core.write_ndjson(pin2, docs)
    core.run_harness(ctx, ["list", "--in", pin2, "--out", pout2])
    lobs = core.read_ndjson(pout2)
    n2, bad2, _ = core.run_judge(ctx, "Trace_List", pout2)
    bad2.sort(key=lambda b: len(lobs[b[0] - 1]["text"]))
    for line, names in bad2:
        x = lobs[line - 1]
        for c in names:
            ctx.violation("list:" + c, f"C10 clause {c} fails for recipe {x['text'][:200]!r}",
                          dict(kind="list", clause=c, text=x["text"], obs=x["obs"]))
    valid = [x for x in lobs if x["obs"]["st"] == "ok"]
    ctx.evaluations = nseq + len(lobs)
    ctx.nontrivial = nseq + sum(1 for x in valid if any(i["from"] for i in x["obs"]["igrs"]))
    ctx.rule = ("(a) every sequence of up to MaxAdds (3 quick / 4 thorough) additions from a 17-quantity pool (known units of two "
                "physical quantities and both systems, unknown units, unitless, ranges, text values with and without unit) "
                "into two groups followed by a merge, enumerated by TLC with Conservation checked as an invariant of CookGroup, "
                "replayed on the real GroupedQuantity with the model converter (small integer ratios: totals are exact); "
                "totals per class are compared after every step and after fit; every bundled unit x 135 numbers / ranges added in two "
                "halves and fitted (fractions on), measured with the standard definitions. (b) valid CookDoc recipes (reference kernel and "
                "random walks) through group_ingredients, IngredientList (once, twice) and categorize with an aisle file whose "
                "synonyms collide with listed names; expected totals are recomputed by TLC from the recipe's own quantities. "
                "non-trivial = operation sequences + recipes with at least one reference")
    ctx.extra["sequences"] = nseq
    ctx.extra["recipes"] = len(valid)
    ctx.extra["exhaustive"] = quick
    for x in obs[:2]:
        ctx.sample(dict(ops=[(o["op"], o["g"], o["q"]["lo"] / 4, o["q"]["unit"] or o["q"]["txt"]) for o in x["ops"]],
                        final=x["obs"]["steps"][-1]["g1"] if x["obs"].get("steps") else None))
    for x in valid[:2]:
        ctx.sample(dict(recipe=x["text"][:200], list=x["obs"]["list1"], categorized=x["obs"]["categorized"]))
    ctx.assumptions = ["TLC and the CommunityModules JSON reader are trusted",
                       "amounts are exact multiples of a quarter unit with the model converter; the recorder reports a total as exact only within 1e-6"]


def replay_c10(ctx, case):
    core.build_harness()
    c = case["case"]
    if c["kind"] == "group" and "ops" not in c:
        print("re-running C10 (the case is one unit of the bundled two-halves sweep):", c.get("unit"), c.get("first"))
        check_c10(ctx)
        return ctx.finish()
    if c["kind"] == "group":
        pin = os.path.join(ctx.work, "g_in.ndjson")
        pout = os.path.join(ctx.work, "g_obs.ndjson")
        core.write_ndjson(pin, [dict(ops=c["ops"], totals1=[], texts1=[], totals2=[], texts2=[])])
        core.run_harness(ctx, ["group", "--in", pin, "--out", pout])
        n, bad, _ = core.run_judge(ctx, "Trace_Group", pout)
        bad = [(l, [x for x in names if x != "FinalTotalsAsSpecified"]) for l, names in bad]
    else:
        pin = os.path.join(ctx.work, "l_in.ndjson")
        pout = os.path.join(ctx.work, "l_obs.ndjson")
        core.write_ndjson(pin, [dict(text=c["text"])])
        core.run_harness(ctx, ["list", "--in", pin, "--out", pout])
        n, bad, _ = core.run_judge(ctx, "Trace_List", pout)
    for line, names in bad:
        if names:
            ctx.violation("replay", f"still fails: {names}", dict())
    return ctx.finish()
