"""C12: fraction approximation never misstates a value."""
import os

from . import core


def check_c12(ctx):
    core.build_harness()
    quick = ctx.tier == "quick"
    r = core.run_tlc(ctx, "MC_Fraction", "MC_Fraction_quick.cfg" if quick else "MC_Fraction_thorough.cfg", workers=8, timeout=3000)
    ctx.model_violation(r)
    pin = os.path.join(ctx.work, "grid.ndjson")
    pout = os.path.join(ctx.work, "obs.ndjson")
    core.write_ndjson(pin, r.replay)
    core.run_harness(ctx, ["fraction", "--in", pin, "--out", pout, "--random", "20000" if quick else "400000"])
    obs = core.read_ndjson(pout)
    n, bad, notes = core.run_judge(ctx, "Trace_Fraction", pout)
    for _, names in notes:
        for d in names:
            ctx.drift_note(d)
    for line, names in bad:
        x = obs[line - 1]
        for c in names:
            ctx.violation(c, f"C12 clause {c} fails for new_approx({x['src']}): {x['obs']}",
                          dict(kind="fraction", clause=c, point=x["src"], obs=x["obs"], pred=x.get("pred")))
    ctx.evaluations = len(obs)
    ctx.nontrivial = sum(1 for x in obs if x["obs"]["kind"] == "fraction")
    ctx.rule = ("points: the dyadic grid W + j/4096 (W in {0,1,2,7}, every j at the thorough tier, every 16th at quick) x "
                "max denominators {1,2,3,4,8,10,16,64} x accuracies {0,1,5,10,50,100}% x whole limits {0,1,5,none}, "
                "enumerated by TLC with the answer CookFraction computes; plus special values (0, negatives, NaN, "
                "infinities, subnormals, values around 2^31 and 2^32) x parameters and seeded random values without "
                "prediction. non-trivial = points whose real answer is a fraction")
    ctx.extra["exhaustive"] = True
    for x in obs[5000:5003] + obs[-3:]:
        ctx.sample(dict(point=x["src"], observed=x["obs"], predicted=x.get("pred")))
    ctx.assumptions = ["TLC and the CommunityModules JSON reader are trusted",
                       "IEEE facts (value()==input within 4 ulp, |err| <= accuracy*value, integrality) are computed by the harness in f64",
                       "the accuracy reaches the library as f32, so model and implementation may differ exactly on an accuracy boundary (reported as drift)"]


def replay_c12(ctx, case):
    print("re-run ./check C12; point:", case["case"].get("point"))
    check_c12(ctx)
    return ctx.finish()
