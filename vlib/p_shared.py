"""C18: parsing is deterministic, stateless across calls and thread-safe."""
import os
import random

from . import core
from .p_parse import repo_corpus, random_corpus

HASH_SENSITIVE = [
    ">> prep time: 10 min\n>> cook time: 20 min\n>> time: 1h\n@a{1%cup}\n",
    ">> cook time: 20 min\n>> prep time: 10 min\n>> time: 45\nstep\n",
    ">> time: 1h\n>> prep time: 10 min\n>> cook time: 5 min\n",
    "---\ntitle: Soup\nprep time: 10 min\ncook time: 20 min\ntime: 1h\nk: v\n---\n@flour{1/3%cup} and @milk{2.5%cups}\n",
    "---\ntitle: Soup\nk: v\nj: w\n---\nMix @a{1%tsp}\n",
    "---\ntitle: Other\nk: x\n---\nMix @a{3%tsp} @&a{2%tbsp}\n",
    "@a{1%kg} @a{2%g} @&a{3%lb} @b{1%cup} @&b{1%l} @c @&c{1} @&c{x} #p #&p{2} ~{5%min}\n",
    ">> [duplicate]: ref\n@a{1} @a{2} @A{3} @b @a{4%g}\n\n>> [mode]: steps\n@a @b @z\n",
    "@&missing @&(~3)x{} @a(n) @&a(m) #p{1%kg} ~{}\n",
    "#&pot{} and #&lid\n",
    "Mix @&sauce{} well\n",
    "~{10%min} then ~{5%Min} and 15 MIN or 2 KG, 3 kg\n",
    "~{5%Min} @a{1%Kg} 15 MIN\n",
    "Add 2 tablespoons of oil, 500 millilitres of stock and 3 kilograms of bones; simmer 90 minutes at 180 celsius\n",
    ">> servings: 2|4\n>> tags: a, b, a\n>> author: Me <https://me.example>\n>> locale: en_GB\n@x{1 1/2%cups} @y{0.333%cup} @z{7%oz}\n",
    # durations with unit names (read through the converter), durations that are no whole number of minutes, a composed time whose
    # second part is out of form, out-of-form values of every checked key
    "---\ntime: 1 hour 30 min\nprep time: 15 minutes\ncook time: 90 seconds\n---\nAdd @x{1%cup} and wait 2 hours\n",
    "---\ntime: {prep: 45 secs, cook: a while}\n---\nstep\n",
    ">> time: 400 secs\n>> prep time: 1.5\n>> cook time: 2 h 5 min\nstep\n",
    "---\ntime: soon\nservings: many\ntags: [[a]]\nlocale: nowhere_\nauthor: {x: 1}\n---\nstep\n",
    # values whose refusal names several things at once (the order in which they are named is part of the result)
    ">> servings: 2|4|2|4|6|6\n>> tags: a, b, a, b\n@a{1}\n", "---\nservings: [3, 5, 3, 5, 7, 7]\n---\n~{5%parsecs} @&sugar{}\n",
]


def same_length_pairs():
    """texts of equal byte length, one with a front matter and one without (or with it at other offsets)"""
    out = []
    for a in ["---\ntitle: Soup\n---\nMix @a{1%tsp}\n", "---\nk: v\nservings: 2\n---\n@flour{200%g} and @milk{1%l}\n", "---\nlong key here: value\n---\nstep\n"]:
        b = "Mix @salt{1%tsp} and @water{2%l} well"
        b = (b + " and again" * 10)[: len(a.encode()) - 1] + "\n"
        assert len(a.encode()) == len(b.encode())
        out += [a, b]
    return out


def check_c18(ctx):
    core.build_harness()
    quick = ctx.tier == "quick"
    r = core.run_tlc(ctx, "CookShared", "CookShared.cfg" if quick else "CookShared_thorough.cfg", workers=8)
    ctx.model_violation(r)
    repo = repo_corpus()
    rnd = random.Random(ctx.seed)
    texts = list(HASH_SENSITIVE) + same_length_pairs() + [x["text"] for x in repo if len(x["text"]) < 4000][:25]
    texts += [x["text"] for x in random_corpus(ctx, 25, [t["text"] for t in repo])]
    pin = os.path.join(ctx.work, "inputs.ndjson")
    core.write_ndjson(pin, [dict(text=t) for t in texts])
    # every other run starts all threads on this input: whatever a brand-new parser builds lazily is raced for
    COLD = ",".join(str(i) for i, t in enumerate(texts) if "tablespoons" in t or "1 hour 30 min" in t or "400 secs" in t)
    runs = 12 if quick else 60
    trace = os.path.join(ctx.work, "shared.ndjson")
    events = 0
    # baselines from pristine processes: one process per (operation, input, configuration), so that not even
    # process-wide state (a static, a thread local, a lazily built table) of an earlier call can be in them
    import subprocess
    from concurrent.futures import ThreadPoolExecutor
    CONFIGS = [("all", "b"), ("none", "e"), ("compat", "b")]
    basefile = {}
    for ext, conv in CONFIGS:
        jobs = [(op, i) for op in ("parse", "meta", "validated", "scale", "accessors") for i in range(len(texts))]

        def one(job, ext=ext, conv=conv):
            p = subprocess.run([core.BIN, "shared", "--in", pin, "--ext", ext, "--conv", conv, "--one", f"{job[0]}:{job[1]}"],
                               stdout=subprocess.PIPE, stderr=subprocess.PIPE, text=True, timeout=120)
            if p.returncode != 0:
                raise core.ToolError(f"baseline process failed: {p.stderr[-500:]}")
            return p.stdout.strip().splitlines()[-1]
        with ThreadPoolExecutor(max_workers=8) as ex:
            lines = list(ex.map(one, jobs))
        bf = os.path.join(ctx.work, f"base_{ext}_{conv}.ndjson")
        with open(bf, "w") as f:
            f.write("\n".join(lines) + "\n")
        basefile[(ext, conv)] = bf
    ctx.extra["pristine_baseline_processes"] = sum(1 for _ in basefile) * 5 * len(texts)
    with open(trace, "w") as out:
        for k in range(runs):
            po = os.path.join(ctx.work, f"run{k}.ndjson")
            ext, conv = CONFIGS[k % 3]
            core.run_harness(ctx, ["shared", "--in", pin, "--out", po, "--threads", "8", "--calls", "60" if quick else "150",
                                   "--ext", ext, "--conv", conv, "--base", basefile[(ext, conv)]]
                             + (["--cold", COLD] if k % 2 == 0 else []), env={"VERIF_SEED": str(ctx.seed + k)})
            with open(po) as f:
                for line in f:
                    out.write(line)
                    events += 1
            os.remove(po)
    recs = core.read_ndjson(trace)
    n, bad, _ = core.run_judge(ctx, "Trace_Shared", trace)
    for line, names in bad:
        x = recs[line - 1]
        for c in names:
            ctx.violation(f"{c}:{x['op']}", f"C18 clause {c}: {x['op']} of input #{x['input']} on thread {x['t']} (call {x['seq']}) gave "
                                            f"{x['hash']} but the sequential baseline is {x['base']}: {texts[x['input']][:100]!r}",
                          dict(kind="shared", clause=c, op=x["op"], input=texts[x["input"]], thread=x["t"], seq=x["seq"]))
    ends = [x for x in recs if x["ev"] == "End"]
    ctx.evaluations = len(ends)
    ctx.nontrivial = len({(x["op"], x["input"], x["t"]) for x in ends})
    ctx.rule = (f"{runs} fresh processes; in each, 8 threads released by a barrier share one parser (first calls go for the lazily "
                "built fraction table) and then one thread runs a sequential history (every input after every input, reversed "
                "order, random skips) of the operations parse / parse_metadata / parse_with_options(validator) / parse+scale+"
                "convert+group / parse+standard-metadata-accessors over inputs that route through every hash map on the parse path (time override labels, front "
                "matter, many same-name components) plus repository recipes and random splices; baselines come from a fresh "
                "process per call. Every other process opens with 40 cold-start rounds (a brand-new parser, all threads released on one of three "
                "inputs: prose with unit names, durations with unit names, durations that are no whole minutes). The thread schedules are the ones the OS produced, not an exhaustive set. "
                "non-trivial = distinct (operation, input, thread) triples")
    ctx.extra["schedules_observed"] = runs
    ctx.extra["events"] = events
    for x in ends[:3]:
        ctx.sample(dict(thread=x["t"], call=x["seq"], op=x["op"], input=texts[x["input"]][:80], hash=x["hash"], baseline=x["base"]))
    ctx.assumptions = ["TLC is exhaustive on the CookShared model only; real schedules are sampled", "64-bit hash of the JSON image + ordered diagnostics stands for the result"]


def replay_c18(ctx, case):
    print("C18 histories depend on the schedule; re-running the check with the same seed")
    check_c18(ctx)
    return ctx.finish()
