"""C11: aisle configuration parsing is total, duplicate-free and round-trips."""
import os
import random

from . import core


def syms_text(syms):
    return "".join({"LF": "\\n", "CR": "\\r", "TAB": "\\t", "NBSP": "<NBSP>", "TSP": "<TSP>", "E2": "é"}.get(s, s) for s in syms)


def judge_records(ctx, recs_path, recs):
    n, bad, notes = core.run_judge(ctx, "Trace_Aisle", recs_path)
    for line, names in notes:
        for d in names:
            ctx.drift_note(d)
    # group per clause (+ panic signature), smallest input as representative
    bad.sort(key=lambda b: len(recs[b[0] - 1]["input"]))
    for line, names in bad:
        r = recs[line - 1]
        for c in names:
            key = c
            if c == "Total":
                key = "Total:" + r["obs"].get("panic", "")[:60]
            ctx.violation(key, f"C11 clause {c} fails on aisle input {syms_text(r['input'])!r}",
                          dict(kind="aisle", clause=c, input=r["input"], text=syms_text(r["input"]),
                               pred=r.get("pred"), obs=r["obs"]))
    return n


def random_inputs(ctx, n):
    rnd = random.Random(ctx.seed)
    alpha = ["[", "]", "|", "a", "b", "c", " ", "LF", "CR", "/", "NBSP", "TSP", "TAB", "E2", "x", "1", "A", "B"]
    lines = [["[", "a", "]"], ["[", "b", " ", "c", "]"], ["a"], ["b", "|", "c"], ["x", " ", "|", " ", "E2"], [],
             ["/", "/", " ", "c"], ["a", "|", "a"], ["[", "a", "]"], ["NBSP", "x"], ["1", " ", "/", "/", "[", "x", "]"],
             ["A"], ["B", "|", "c"], ["[", "A", "]"]]
    out = []
    # names and categories that differ only in letter case are different ones: every placement over two categories
    for lo, up in [("a", "A"), ("b", "B"), ("a b", "A b"), ("E2", "x")]:
        for f in (f"[x]\n{lo}\n[y]\n{up}\n", f"[x]\n{up}\n[y]\n{lo}\n", f"[x]\n{lo}|q\n[y]\nr|{up}\n", f"[{lo}]\n{lo}\n[{up}]\n{up}\n",
                  f"[x]\n{lo}|{up}\n", f"[x]\nq|{up}\nr|{lo}\n[y]\n"):
            out.append({"input": [{"\n": "LF", " ": " "}.get(ch, ch) for ch in f.replace("E2", "\u00e9")]})
    for _ in range(n):
        if rnd.random() < 0.5:
            s = [rnd.choice(alpha) for _ in range(rnd.randint(5, 14))]
        else:
            s = []
            for _ in range(rnd.randint(1, 8)):
                l = list(rnd.choice(lines))
                if rnd.random() < 0.3 and l:
                    l[rnd.randrange(len(l))] = rnd.choice(alpha)
                s += l + rnd.choice([["LF"], ["LF"], ["CR", "LF"], ["LF", "LF"]])
            if rnd.random() < 0.4:
                while s and s[-1] in ("LF", "CR"):
                    s.pop()
        out.append({"input": s})
    return out


def check_c11(ctx):
    core.build_harness()
    cfg = "MC_Aisle_quick.cfg" if ctx.tier == "quick" else "MC_Aisle_thorough.cfg"
    r = core.run_tlc(ctx, "MC_Aisle", cfg, workers=8, continue_=True, timeout=3000)
    ctx.model_violation(r)
    recs_in = r.replay + random_inputs(ctx, 2000 if ctx.tier == "quick" else 40000)
    pin = os.path.join(ctx.work, "aisle_in.ndjson")
    pout = os.path.join(ctx.work, "aisle_obs.ndjson")
    core.write_ndjson(pin, recs_in)
    core.run_harness(ctx, ["aisle", "--in", pin, "--out", pout])
    recs = core.read_ndjson(pout)
    judge_records(ctx, pout, recs)
    ctx.evaluations = len(recs)
    ctx.nontrivial = len({tuple(x["input"]) for x in recs if len(x["input"]) >= 2})
    ctx.rule = ("inputs: every symbol string up to MaxLen over {[ ] | a b space LF CR / NBSP} and every file of up to "
                "PoolLines lines from an 18-shape line pool x {LF, CRLF, no final newline}, enumerated by TLC (BFS, "
                "exhaustive) with the outcome CookAisle predicts; plus seeded random files without prediction. "
                "non-trivial = distinct inputs of at least two symbols")
    ctx.extra["exhaustive"] = True
    ctx.extra["bounds"] = cfg
    for x in recs[:3] + recs[len(r.replay) // 2: len(r.replay) // 2 + 2]:
        ctx.sample(dict(input=syms_text(x["input"]), predicted=x.get("pred", {}).get("st"), observed=x["obs"]["st"]))
    ctx.assumptions = ["TLC and the CommunityModules JSON reader are trusted",
                       "the recorder (harness/cookverif/src/aisle.rs) projects results faithfully; symbols map 1:1 to characters"]


def replay_c11(ctx, case):
    core.build_harness()
    c = case["case"]
    if c.get("kind") == "model":
        print("model-level violation: rerun ./check C11 and read", c.get("tlc_output"))
        return 1
    rec = {"input": c["input"]}
    if c.get("pred"):
        rec["pred"] = c["pred"]
    pin = os.path.join(ctx.work, "in.ndjson")
    pout = os.path.join(ctx.work, "obs.ndjson")
    core.write_ndjson(pin, [rec])
    core.run_harness(ctx, ["aisle", "--in", pin, "--out", pout])
    recs = core.read_ndjson(pout)
    judge_records(ctx, pout, recs)
    print("observed:", recs[0]["obs"])
    return ctx.finish()
