"""./check selftest [--part corrupt|coverage|racy|seeds|all]

Shows that the binding binds (DESIGN 4.5). Not a registered property check.

 corrupt   every judge (trace specification) is run on the head of a trace recorded from the real library; then on a
           copy in which every record has ONE observed field changed (type preserving: a boolean flipped, an integer
           +1, a string replaced by another value of the same field, the last element of a list dropped). Reports per
           judge how many single-field corruptions are rejected (BAD) / noted as drift (NOTE) / not noticed, and
           fails if a field listed in MUST_BIND is not rejected or a judge notices fewer than MIN_RATE of them.
 coverage  every bounded model configuration is run with -coverage 1: every action must have been taken; expressions
           of the specification never evaluated are listed (vacuity guard).
 racy      CookSharedRacy (the check-then-set sibling of CookShared) must violate Deterministic.
 seeds     every stored source change under /verif/seeded is applied to /repo (which must be clean), the quick check
           of its property must exit 1 with a VIOLATION line, and the change is reverted.
"""
import collections
import json
import os
import random
import re
import shutil
import subprocess
import sys
import time

from . import core

ROOT = core.ROOT
REPORT = os.path.join(ROOT, "selftest_report.json")

# observed fields whose corruption must be rejected by the judge (regex on the leaf path), per judge configuration
MUST_BIND = {
    "Trace_Aisle": [r"^obs\.st$", r"^obs\.cats\[\d+\]\.name$", r"^obs\.cats\[\d+\]\.igrs\[\d+\]\.names$"],
    "Trace_Fraction": [r"^obs\.num$", r"^obs\.errWithin$", r"^obs\.exact$"],
    "Trace_Ffi": [r"^obs\.selected$", r"^obs\.keys$", r"^obs\.sublist$"],
    "Trace_Shared": [r"^hash$"],
    "Trace_Group": [r"^obs\.steps\[\d+\]\.totals$"],
    "Trace_Builder": [r"^obs\.outcome$"],
    "Trace_Convert": [r"^obs\.st$"],
    "Trace_StdMeta": [r"^obs\.warned$"],
    "Trace_Serde": [r"^obs\.cases\[\d+\]\.rt\.equal$", r"^obs\.cases\[\d+\]\.rt\.identical$"],
}
MIN_RATE = 0.25   # a judge that notices fewer than this share of single-field corruptions binds too little

# checks whose traces are captured (each judge configuration is captured once)
CAPTURE_PROPS = ["C11", "C12", "C13", "C16", "C08", "C09", "C10", "C19", "C18", "C15", "C14", "C03", "C04", "C05",
                 "C01", "C02", "C06", "C07", "C17"]

# bounded model configurations for the coverage part: (module, cfg, simulate)
COVERAGE = [("MC_Aisle", "MC_Aisle_quick.cfg", None), ("MC_Combine", "MC_Combine_quick.cfg", None),
            ("MC_Builder", "MC_Builder_quick.cfg", None), ("MC_Fraction", "MC_Fraction_quick.cfg", None),
            ("MC_Group", "MC_Group_quick.cfg", None), ("MC_Convert", "MC_Convert.cfg", None),
            ("MC_Lexer", "MC_Lexer_quick.cfg", None), ("MC_Api", "MC_Api_quick.cfg", None),
            ("MC_Blocks", "MC_Blocks_all.cfg", None), ("MC_Blocks", "MC_Blocks_none.cfg", None),
            ("CookShared", "CookShared.cfg", None), ("CookMeta", "CookMeta_bundled.cfg", None),
            ("MC_Doc", "MC_Doc_ref2.cfg", None), ("MC_Doc", "MC_Doc_cw2.cfg", None), ("MC_Doc", "MC_Doc_struct.cfg", None),
            ("MC_Doc", "MC_Doc_switch.cfg", None), ("MC_Doc", "MC_Doc_defect.cfg", None),
            ("MC_Doc", "MC_Doc_sim_ext.cfg", 400), ("MC_Doc", "MC_Doc_sim_canon.cfg", 400)]


def leaves(x, path=""):
    if isinstance(x, dict):
        for k, v in x.items():
            yield from leaves(v, f"{path}.{k}" if path else k)
    elif isinstance(x, list):
        yield path, x
        for i, v in enumerate(x):
            yield from leaves(v, f"{path}[{i}]")
    else:
        yield path, x


def set_path(x, path, val):
    toks = re.findall(r"[^.\[\]]+|\[\d+\]", path)
    cur = x
    for t in toks[:-1]:
        cur = cur[int(t[1:-1])] if t.startswith("[") else cur[t]
    t = toks[-1]
    if t.startswith("["):
        cur[int(t[1:-1])] = val
    else:
        cur[t] = val


def generic(path):
    return re.sub(r"\[\d+\]", "[]", path)


# the part of a record that comes from the implementation (regex on the leaf path), per judge; default: obs.*
OBSERVED = {
    "Trace_Api": r"^(calls\[\d+\]\.st|timeout)$",
    "Trace_Meta": r"^(full|only)\.",
    "Trace_Parse": r"^(toks|spans|labels|frags|evs|evk|ptoks|rlabels|lexed|parsed|analysed|write|haserr)",
    "Trace_Subsets": r"^(imgs|errs)",
    "Trace_Variants": r"^(base\.|vars\[\d+\]\.obs\.)",
    "Trace_Shared": r"^hash$",
    "Trace_List": r"^obs\.(?!aisle)",          # obs.aisle echoes the fixed aisle file
}


def observed(module, path, rec):
    if module == "Trace_Shared" and rec.get("ev") != "End":
        return False
    return re.search(OBSERVED.get(module, r"^obs(\.|$)"), path) is not None


def corrupt_all(module, recs, rng):
    """-> list of (record index, corrupted record, path, description)"""
    pool = collections.defaultdict(set)
    for r in recs:
        for p, v in leaves(r):
            if isinstance(v, str):
                pool[generic(p)].add(v)
    out = []
    for i, r in enumerate(recs):
        cands = [(p, v) for p, v in leaves(r) if observed(module, p, r)]
        rng.shuffle(cands)
        for p, v in cands:
            if isinstance(v, bool):
                nv = not v
            elif isinstance(v, int):
                nv = v + 1
            elif isinstance(v, str):
                others = sorted(pool[generic(p)] - {v})
                if not others:
                    continue
                nv = rng.choice(others)
            elif isinstance(v, list):
                if not v:
                    continue
                nv = v[:-1]
            else:
                continue
            c = json.loads(json.dumps(r))
            set_path(c, p, nv)
            out.append((i, c, p, f"{p}: {json.dumps(v)[:60]} -> {json.dumps(nv)[:60]}"))
            break
    return out


DISCRIMINATORS = re.compile(r"(^|\.)(kind|st|t|outcome|type|cls|ev|k)$")


def signature(x):
    """shape of a value: keys, list lengths, scalar types - two values of one shape can stand in for each other"""
    if isinstance(x, dict):
        return tuple((k, signature(v)) for k, v in sorted(x.items()))
    if isinstance(x, list):
        return ("L", tuple(signature(v) for v in x))
    if isinstance(x, str):
        return "s"
    return type(x).__name__


def swap_all(module, cfg, recs):
    """every record gets the observed part of the next record with the same shape and a different content"""
    # relational judges compare two observed parts with each other: only one side is exchanged
    # (C06 and the list half of C10 relate parts of one observed model to each other: another recipe's model is as consistent)
    only = {"Trace_Meta": {"only"}, "Trace_Variants": {"base"}, "Trace_Subsets": set(), "Trace_List": set(),
            "Trace_Doc/Trace_Doc_C06.cfg": set()}
    if f"{module}/{cfg}" in only:
        only[module] = only[f"{module}/{cfg}"]

    def obs_of(r):
        ks = {p.split(".")[0].split("[")[0] for p, _ in leaves(r) if observed(module, p, r)}
        return ks & only[module] if module in only else ks
    out = []
    sigs = []
    for r in recs:
        keys = sorted(obs_of(r))
        sigs.append((tuple(keys), signature({k: r[k] for k in keys})))
    for i, r in enumerate(recs):
        keys, sg = sigs[i]
        if not keys:
            continue
        for j in list(range(i + 1, len(recs))) + list(range(0, i)):
            if sigs[j] == (keys, sg) and any(recs[j][k] != r[k] for k in keys):
                c = json.loads(json.dumps(r))
                for k in keys:
                    c[k] = json.loads(json.dumps(recs[j][k]))
                out.append((i, c, "<observed part>", f"observed part of record {j + 1} put into record {i + 1}"))
                break
    return out


def judge_chunked(ctx, module, cfg, cor, tag):
    """-> (bad lines, note lines, indices the judge could not evaluate)"""
    path = os.path.join(ctx.work, f"{tag}.ndjson")
    core.write_ndjson(path, [c[1] for c in cor])
    try:
        n, bad, notes = core.run_judge(ctx, module, path, cfg=cfg)
        return {l: nm for l, nm in bad}, {l: nm for l, nm in notes}, set()
    except core.ToolError:
        pass
    badl, notel, errs = {}, {}, set()
    size = 20
    for a in range(0, len(cor), size):
        chunk = cor[a:a + size]
        core.write_ndjson(path, [c[1] for c in chunk])
        try:
            n, bad, notes = core.run_judge(ctx, module, path, cfg=cfg)
            badl.update({a + l: nm for l, nm in bad})
            notel.update({a + l: nm for l, nm in notes})
        except core.ToolError:
            for k in range(len(chunk)):      # one by one: the corruption left the domain the judge is written for
                core.write_ndjson(path, [chunk[k][1]])
                try:
                    n, bad, notes = core.run_judge(ctx, module, path, cfg=cfg)
                    badl.update({a + k + l: nm for l, nm in bad})
                    notel.update({a + k + l: nm for l, nm in notes})
                except core.ToolError:
                    errs.add(a + k + 1)
    return badl, notel, errs


def part_corrupt(report):
    reuse = os.environ.get("SELFTEST_CAP")      # development aid: traces captured by an earlier run
    cap = reuse or os.path.join(core.WORK, "selftest-cap")
    if not reuse:
        shutil.rmtree(cap, ignore_errors=True)
        os.makedirs(cap)
    env = dict(os.environ, VERIF_CAPTURE_DIR=cap, VERIF_CAPTURE_N="400")
    for pid in ([] if reuse else CAPTURE_PROPS):
        p = subprocess.run([os.path.join(ROOT, "check"), pid, "--tier", "quick"], env=env, stdout=subprocess.PIPE,
                           stderr=subprocess.STDOUT, text=True)
        if p.returncode not in (0,):
            print(f"selftest: ./check {pid} exited {p.returncode} on the current tree; corruption part needs a quiet tree")
            print(p.stdout[-1500:])
            return False
    ok = True
    rng = random.Random(20261003)
    ctx = core.Ctx("selftest", "quick", 20261003)
    res = {}
    for f in sorted(os.listdir(cap)):
        module, cfg = f[:-len(".ndjson")].split("__")
        recs = core.read_ndjson(os.path.join(cap, f))
        # a coverage record only makes sense on the whole trace
        recs = [r for r in recs if r.get("kind_rec") != "coverage"]
        base = os.path.join(ctx.work, f"base-{f}")
        core.write_ndjson(base, recs)
        n, bad0, notes0 = core.run_judge(ctx, module, base, cfg=cfg)
        clean = {l for l, _ in bad0}
        cor = corrupt_all(module, recs, rng)
        cor = [c for c in cor if (c[0] + 1) not in clean]
        if not cor:
            res[f] = dict(records=len(recs), corrupted=0)
            continue
        badl, notel, errs = judge_chunked(ctx, module, cfg, cor, f"cor-{f}")
        base_notes = {l for l, _ in notes0}
        by_field = collections.defaultdict(lambda: [0, 0, 0])
        missed_must = []
        for k, (i, c, p, desc) in enumerate(cor, start=1):
            g = generic(p)
            if k in badl or k in errs:     # a record the judge cannot even evaluate is not accepted either
                by_field[g][0] += 1
            elif k in notel and (i + 1) not in base_notes:
                by_field[g][1] += 1
            else:
                by_field[g][2] += 1
                if any(re.search(rx, p) for rx in MUST_BIND.get(module, [])):
                    missed_must.append(desc)
        nb = sum(v[0] for v in by_field.values())
        nn = sum(v[1] for v in by_field.values())
        nm = sum(v[2] for v in by_field.values())
        rate = (nb + nn) / max(1, len(cor))
        res[f] = dict(records=len(recs), corrupted=len(cor), rejected=nb, drift_noted=nn, unnoticed=nm,
                      by_field={k: dict(rejected=v[0], noted=v[1], unnoticed=v[2]) for k, v in sorted(by_field.items())},
                      must_bind_missed=missed_must[:10])
        print(f"selftest corrupt {module}/{cfg}: {len(cor)} single-field corruptions: {nb} rejected, {nn} drift-noted, {nm} unnoticed"
              + (f" ({len(errs)} not evaluable)" if errs else ""))
        sw = [c for c in swap_all(module, cfg, recs) if (c[0] + 1) not in clean]
        if sw:
            sb, sn, se = judge_chunked(ctx, module, cfg, sw, f"swap-{f}")
            rej = sum(1 for k in range(1, len(sw) + 1) if k in sb or k in se)
            noted = sum(1 for k, c in enumerate(sw, start=1) if k not in sb and k not in se and k in sn and (c[0] + 1) not in base_notes)
            res[f]["swapped"] = dict(records=len(sw), rejected=rej, drift_noted=noted, unnoticed=len(sw) - rej - noted)
            print(f"selftest corrupt {module}/{cfg}: {len(sw)} records with another record's observed part: {rej} rejected, {noted} drift-noted, "
                  f"{len(sw) - rej - noted} unnoticed")
        if missed_must:
            ok = False
            print(f"  MUST-BIND field not rejected: {missed_must[:3]}")
        if rate < MIN_RATE:
            ok = False
            print(f"  binds too little: {rate:.2f} < {MIN_RATE}")
    shutil.rmtree(ctx.work, ignore_errors=True)
    if not reuse:
        shutil.rmtree(cap, ignore_errors=True)
    report["corrupt"] = res
    return ok


def part_coverage(report):
    ok = True
    ctx = core.Ctx("selftest", "quick", 20261003)
    res = {}
    union = {}    # the kernels of MC_Doc switch actions off on purpose: an action must be taken in SOME configuration
    for module, cfg, sim in COVERAGE:
        r = core.run_tlc(ctx, module, cfg, workers=8, coverage=True, want_replay=False, simulate=sim, timeout=1200)
        actions = {}
        zero = []
        cur = None
        with open(r.out_path, errors="replace") as f:
            for line in f:
                m = re.match(r"^<(\w+) line (\d+), col \d+ to line \d+, col \d+ of module (\w+)>: (\d+):(\d+)", line)
                if m:
                    cur = f"{m.group(3)}!{m.group(1)}"
                    actions[cur] = actions.get(cur, 0) + int(m.group(5))
                    continue
                m = re.match(r"^<(\w+) line (\d+), col \d+ to line \d+, col \d+ of module (\w+)>", line)
                if m:
                    cur = f"{m.group(3)}!{m.group(1)}"
                    continue
                m = re.match(r"^\s+\|*line (\d+), col (\d+) to line (\d+), col (\d+) of module (\w+): (\d+)\s*$", line)
                if m and int(m.group(6)) == 0:
                    zero.append(f"{m.group(5)}:{m.group(1)}:{m.group(2)} (in {cur})")
        never = sorted(a for a, n in actions.items() if n == 0 and not a.endswith("!Init"))
        res[f"{module}/{cfg}"] = dict(distinct=r.distinct, actions=actions, never_taken=never, unevaluated_expressions=zero[:60],
                                      n_unevaluated=len(zero))
        print(f"selftest coverage {module}/{cfg}: {len(actions)} actions, {len(never)} never taken, {len(zero)} expressions never evaluated")
        for a_, n_ in actions.items():
            union[a_] = union.get(a_, 0) + n_
        if r.violated or r.errors:
            ok = False
            print(f"  model violated/errors: {r.violated} {r.errors[:2]}")
    never = sorted(a_ for a_, n_ in union.items() if n_ == 0 and not a_.endswith("!Init"))
    if never:
        ok = False
        print(f"selftest coverage: actions never taken in any configuration: {never}")
    shutil.rmtree(ctx.work, ignore_errors=True)
    res["never_taken_in_any_configuration"] = never
    report["coverage"] = res
    return ok


def part_racy(report):
    ctx = core.Ctx("selftest", "quick", 20261003)
    r = core.run_tlc(ctx, "CookSharedRacy", "CookSharedRacy.cfg", workers=4, want_replay=False, timeout=600)
    shutil.rmtree(ctx.work, ignore_errors=True)
    good = "Deterministic" in r.violated
    print(f"selftest racy: CookSharedRacy violates {sorted(set(r.violated))} -> {'ok' if good else 'NOT DETECTED'}")
    report["racy"] = dict(violated=sorted(set(r.violated)))
    return good


def part_seeds(report, only=None):
    st = subprocess.run(["git", "-C", "/repo", "status", "--porcelain"], stdout=subprocess.PIPE, text=True).stdout.strip()
    if st:
        print("selftest seeds: /repo has uncommitted changes; refusing to apply seeded changes")
        return False
    ok = True
    res = {}
    sdir = os.path.join(ROOT, "seeded")
    for sid in sorted(os.listdir(sdir)):
        if only and sid not in only and sid[:3] not in only:
            continue
        d = os.path.join(sdir, sid)
        meta = json.load(open(os.path.join(d, "meta.json")))
        pid = meta.get("property", sid[:3])
        t0 = time.time()
        try:
            a = subprocess.run(["git", "-C", "/repo", "apply", os.path.join(d, "patch.diff")], stdout=subprocess.PIPE, stderr=subprocess.STDOUT, text=True)
            if a.returncode != 0:
                print(f"selftest seeds {sid}: patch does not apply any more: {a.stdout[:200]}")
                res[sid] = dict(property=pid, applied=False)
                ok = False
                continue
            p = subprocess.run([os.path.join(ROOT, "check"), pid, "--tier", "quick"], stdout=subprocess.PIPE, stderr=subprocess.STDOUT, text=True)
        finally:
            subprocess.run(["git", "-C", "/repo", "checkout", "--", "."])
        vio = [l for l in p.stdout.splitlines() if l.startswith("VIOLATION")]
        det = p.returncode == 1 and bool(vio)
        res[sid] = dict(property=pid, applied=True, exit=p.returncode, violations=[v[:200] for v in vio[:4]], wall=round(time.time() - t0, 1))
        if meta.get("detected_by_check") == "elsewhere":
            # the same source change is stored under another property, whose check is the one that rejects it (see detection_notes)
            print(f"selftest seeds {sid}: exit {p.returncode} -> not rejected by {pid}'s check; {meta.get('detection_notes', '')[:140]}")
            continue
        if meta.get("detected_by_check") == "no":
            # a stored change that, on inspection, does not violate the property as stated (see its meta.json)
            print(f"selftest seeds {sid}: exit {p.returncode} -> documented as not a violation of the statement")
            continue
        print(f"selftest seeds {sid}: exit {p.returncode}, {len(vio)} VIOLATION line(s) -> {'detected' if det else 'MISSED'}")
        if not det:
            ok = False
    core.build_harness()   # leave a binary of the unchanged tree behind
    report["seeds"] = res
    return ok


def part_benign(report, only=None):
    """stored source changes under which every property still holds (/verif/benign/<id>: patch.diff, meta.json with the
    checks they were run against): applied to /repo one at a time, every listed check must stay quiet"""
    st = subprocess.run(["git", "-C", "/repo", "status", "--porcelain"], stdout=subprocess.PIPE, text=True).stdout.strip()
    if st:
        print("selftest benign: /repo has uncommitted changes; refusing to apply stored changes")
        return False
    ok = True
    res = {}
    bdir = os.path.join(ROOT, "benign")
    for bid in sorted(x for x in os.listdir(bdir) if os.path.isdir(os.path.join(bdir, x))):
        if only and bid not in only:
            continue
        d = os.path.join(bdir, bid)
        meta = json.load(open(os.path.join(d, "meta.json")))
        for pid in meta.get("checks", []):
            try:
                a = subprocess.run(["git", "-C", "/repo", "apply", os.path.join(d, "patch.diff")], stdout=subprocess.PIPE, stderr=subprocess.STDOUT, text=True)
                if a.returncode != 0:
                    print(f"selftest benign {bid}: patch does not apply any more: {a.stdout[:200]}")
                    res[bid + ":" + pid] = dict(applied=False)
                    ok = False
                    break
                p = subprocess.run([os.path.join(ROOT, "check"), pid, "--tier", "quick"], stdout=subprocess.PIPE, stderr=subprocess.STDOUT, text=True)
            finally:
                subprocess.run(["git", "-C", "/repo", "checkout", "--", "."])
            vio = [l for l in p.stdout.splitlines() if l.startswith("VIOLATION")]
            quiet = p.returncode == 0 and not vio
            res[bid + ":" + pid] = dict(applied=True, exit=p.returncode, violations=[v[:200] for v in vio[:3]])
            print(f"selftest benign {bid} under {pid}: exit {p.returncode}, {len(vio)} VIOLATION line(s) -> {'quiet' if quiet else 'FALSE ALARM'}")
            ok &= quiet
    core.build_harness()
    report["benign"] = res
    return ok


def run(a):
    part = getattr(a, "part", None) or "all"
    report = {}
    if os.path.exists(REPORT):
        try:
            report = json.load(open(REPORT))
        except Exception:
            report = {}
    ok = True
    parts = [part] if part != "all" else ["racy", "coverage", "corrupt"]
    for p in parts:
        if p == "racy":
            ok &= part_racy(report)
        elif p == "coverage":
            ok &= part_coverage(report)
        elif p == "corrupt":
            ok &= part_corrupt(report)
        elif p == "seeds" or p.startswith("seeds:"):
            ok &= part_seeds(report, only=p.split(":")[1].split(",") if ":" in p else None)
        elif p == "benign" or p.startswith("benign:"):
            ok &= part_benign(report, only=p.split(":")[1].split(",") if ":" in p else None)
        else:
            print("unknown part", p)
            return 2
    with open(REPORT, "w") as f:
        json.dump(report, f, indent=1)
    print("selftest:", "ok" if ok else "FAILED", "(report:", REPORT + ")")
    return 0 if ok else 1
