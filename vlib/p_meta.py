"""C14: metadata-only parsing agrees with full parsing."""
import os

from . import core
from .p_doc import plain_corpus, generated_corpus, text_of, ALL_EXT
from .p_parse import label_corpus, specials_corpus, fence_corpus, meta_boundary_corpus


def check_c14(ctx):
    core.build_harness()
    quick = ctx.tier == "quick"
    gen = []
    for cfg in (["MC_Blocks_all.cfg", "MC_Blocks_none.cfg"] if quick else ["MC_Blocks_all4.cfg", "MC_Blocks_none4.cfg"]):
        r = core.run_tlc(ctx, "MC_Blocks", cfg, workers=8, timeout=3000)
        ctx.model_violation(r)
        gen += r.replay
    plain = [dict(text=text_of(r)) for r in plain_corpus(ctx, [(0, "bundled")])]
    plain += fence_corpus(3 if quick else 4) + meta_boundary_corpus() + label_corpus(3) + specials_corpus()
    if not quick and len(plain) > 150000:      # x 8 extension sets: the recorder and the judge hold every record
        import random
        plain = random.Random(ctx.seed).sample(plain, 150000)
    docs = [dict(text=text_of(d)) for d in generated_corpus(ctx, kernels=False)]
    pin1 = os.path.join(ctx.work, "gen_in.ndjson")
    pin2 = os.path.join(ctx.work, "plain_in.ndjson")
    po1 = os.path.join(ctx.work, "gen_obs.ndjson")
    po2 = os.path.join(ctx.work, "plain_obs.ndjson")
    core.write_ndjson(pin1, gen)
    core.write_ndjson(pin2, plain + docs)
    core.run_harness(ctx, ["meta", "--in", pin1, "--out", po1])
    exts = "none,all,64,3754,compat" if quick else "none,all,64,3754,compat,2,1770,2730"
    core.run_harness(ctx, ["meta", "--in", pin2, "--out", po2, "--ext", exts])
    total = 0
    both = 0
    for po in (po1, po2):
        obs = core.read_ndjson(po)
        n, bad, notes = core.run_judge(ctx, "Trace_Meta", po)
        for _, names in notes:
            for d in names:
                ctx.drift_note(d)
        bad.sort(key=lambda b: len(obs[b[0] - 1]["text"]))
        for line, names in bad:
            x = obs[line - 1]
            for c in names:
                ctx.violation(c, f"C14 clause {c} fails on {x['text'][:160]!r} (ext bits {x['extbits']}): full {x['full']['map']} vs "
                                 f"metadata-only {x['only']['map']}",
                              dict(kind="meta", clause=c, text=x["text"], extbits=x["extbits"], full=x["full"], only=x["only"]))
        total += len(obs)
        both += sum(1 for x in obs if x["full"]["out"] and x["only"]["out"])
        if po == po1:
            for x in obs[100:103]:
                ctx.sample(dict(text=x["text"][:200], full=x["full"]["map"], metadata_only=x["only"]["map"], predicted=x.get("pred")))
    ctx.evaluations = total
    ctx.nontrivial = both
    ctx.rule = ("(a) every sequence of up to MaxLines lines from the 19-shape pool of CookBlocks (>> entries tight and spaced, "
                "config keys, missing colon, indented and mid-line >>, blank/comment-only lines, text, lines ending in a "
                "backslash, block comments opening and closing across lines) x {no front matter, front matter} x {LF, CRLF}, "
                "enumerated by TLC with MetaScanAgrees checked on the model and the predicted map printed, under all and no "
                "extensions; (b) the plain corpora (short strings, repository recipes, splices, repetitions, fence and "
                "boundary-metadata families) and CookDoc walks under several extension subsets. "
                "non-trivial = records where both parses produced output")
    ctx.extra["exhaustive"] = True
    ctx.assumptions = ["TLC and the CommunityModules JSON reader are trusted", "YAML values are compared through their JSON rendering"]


def replay_c14(ctx, case):
    core.build_harness()
    c = case["case"]
    pin = os.path.join(ctx.work, "in.ndjson")
    po = os.path.join(ctx.work, "obs.ndjson")
    core.write_ndjson(pin, [dict(text=c["text"])])
    core.run_harness(ctx, ["meta", "--in", pin, "--out", po, "--ext", str(c["extbits"])])
    n, bad, _ = core.run_judge(ctx, "Trace_Meta", po)
    for line, names in bad:
        ctx.violation("replay", f"still fails: {names}", dict())
    print(core.read_ndjson(po)[0])
    return ctx.finish()
