"""C01, C06, C07 (and helpers for C02, C08, C10, C15, C17, C19): generated documents."""
import hashlib
import json
import os

from . import core
from .p_parse import syms_raw, syms_text, lexer_corpus, repo_corpus, random_corpus, repetition_corpus


def sample(recs, max_n):
    """deterministic subsample (by hash of the text) when a kernel prints more than we replay"""
    if len(recs) <= max_n:
        return recs
    k = -(-len(recs) // max_n)
    out = [r for r in recs if int(hashlib.md5(json.dumps(r["text"]).encode()).hexdigest(), 16) % k == 0]
    return out


DEFECT_RX = r'defect\\":\{[^}]*class\\":\\"([A-Za-z]+)'


def gen_docs(ctx, cfg, *, simulate=None, depth=70, max_n=None, workers=8, per_class=None):
    r = core.run_tlc(ctx, "MC_Doc", cfg, workers=(4 if simulate else workers), simulate=simulate, depth=depth, timeout=3000,
                     max_replay=max_n, strata=(DEFECT_RX, per_class) if per_class else None)
    ctx.model_violation(r)
    recs = r.replay
    for x in recs:
        x["src"] = cfg
    n_all = r.replay_total
    ctx.extra.setdefault("generators", []).append(dict(cfg=cfg, behaviours=n_all, replayed=len(recs)))
    return recs


def generated_corpus(ctx, *, canonical=True, extended=True, kernels=True):
    quick = ctx.tier == "quick"
    recs = []
    cap = 12000 if quick else 80000
    if kernels and extended:
        for cfg in (["MC_Doc_ref2.cfg", "MC_Doc_ref3s.cfg", "MC_Doc_cw2.cfg", "MC_Doc_struct.cfg", "MC_Doc_switch.cfg"] if quick else
                    ["MC_Doc_ref3.cfg", "MC_Doc_cw3.cfg", "MC_Doc_struct.cfg", "MC_Doc_switch5.cfg"]):
            recs += gen_docs(ctx, cfg, max_n=cap)
    nsim = 750 if quick else 6000       # per worker (4 workers)
    if extended:
        recs += gen_docs(ctx, "MC_Doc_sim_ext.cfg", simulate=nsim)
        recs += gen_docs(ctx, "MC_Doc_sim_extempty.cfg", simulate=nsim // 3)
    if canonical:
        recs += gen_docs(ctx, "MC_Doc_sim_canon.cfg", simulate=nsim)
        recs += gen_docs(ctx, "MC_Doc_sim_canonb.cfg", simulate=nsim // 3)
    return recs


def record_docs(ctx, recs, name="docs"):
    pin = os.path.join(ctx.work, name + "_in.ndjson")
    pout = os.path.join(ctx.work, name + "_obs.ndjson")
    core.write_ndjson(pin, recs)
    core.run_harness(ctx, ["docs", "--in", pin, "--out", pout])
    return pout, core.read_ndjson(pout)


def text_of(r):
    t = r.get("text", r.get("input"))
    return syms_raw(t) if isinstance(t, list) else t


def judge_docs(ctx, prop, cfg, pout, obs):
    n, bad, notes = core.run_judge(ctx, "Trace_Doc", pout, cfg=cfg)
    for _, names in notes:
        for d in names:
            ctx.drift_note(d)
    # the shortest documents on which the specification and the library drift apart go into the evidence
    for line, names in sorted(notes, key=lambda b: len(text_of(obs[b[0] - 1])))[:4]:
        r = obs[line - 1]
        ctx.notes.append(f"drift {names} on {text_of(r)[:200]!r} (ext {r.get('ext', r.get('extbits'))}, defect {(r.get('defect') or {}).get('class')}, "
                         f"source {r.get('src', r.get('cfg', ''))})")
    bad.sort(key=lambda b: len(text_of(obs[b[0] - 1])))
    for line, names in bad:
        r = obs[line - 1]
        for c in names:
            key = c
            if c == "Returns":
                key = "Returns:" + r["obs"].get("sig", "")[:60]
            ctx.violation(key, f"{prop} clause {c} fails on {text_of(r)[:160]!r} (ext {r.get('ext', r.get('extbits'))}, {r.get('conv')})",
                          dict(kind="doc", clause=c, text=text_of(r), ext=r.get("ext"), extbits=r.get("extbits"), conv=r.get("conv"),
                               pred=r.get("pred"), defect=r.get("defect"), obs=r["obs"]))
    return n


def doc_evidence(ctx, obs, what):
    ctx.evaluations = len(obs)
    ctx.nontrivial = len({text_of(x) for x in obs if x.get("pred", {}).get("model", {}).get("igr") or len(text_of(x)) > 8})
    ctx.rule = ("documents written by the TLA+ generator CookDoc: exhaustive kernels (BFS over small pools, canonical "
                "spelling; hash-sampled for replay when a kernel prints more than the tier's cap) for reference resolution "
                "(ingredients, cookware, all mode pairs), structure (sections, paragraphs, intermediate references) and mode "
                "switches, plus seeded random walks over the full vocabulary with random spelling (blanks, braces/single word, "
                "% / advanced units, wraps, comments, CRLF, >> / front matter), under the extended and canonical parsers and "
                "both converters; each with the model and diagnostics CookAnalysis predicts. " + what +
                " non-trivial = distinct documents with a component or more than 8 characters")
    for x in obs[:2] + obs[len(obs) // 2: len(obs) // 2 + 2] + obs[-2:]:
        ctx.sample(dict(text=text_of(x)[:300], ext=x.get("ext", x.get("extbits")), predicted_valid=x.get("pred", {}).get("valid"),
                        observed_valid=x["obs"].get("valid"), diags=[d["class"] for d in x["obs"].get("diags", [])]))
    ctx.assumptions = ["TLC and the CommunityModules JSON reader are trusted",
                       "the projection harness/cookverif/src/project.rs maps a recipe to the abstract model faithfully "
                       "(1-based indices, symbolised strings, whitespace-normalised step text)",
                       "text comparisons are up to runs of blanks inside step text"]


def respelled(ctx, nsim):
    """well-formed generated documents respelled by the generator's variants (comments, wraps, blanks, CRLF, fences - also inside
    names): each keeps the prediction of its base document"""
    out = []
    for cfg, n in [("MC_Doc_var_sim_ext.cfg", nsim), ("MC_Doc_var_sim_canon.cfg", nsim // 2)]:
        for d in gen_docs(ctx, cfg, simulate=n):
            if "variants" not in d or not d["pred"].get("wellformed"):
                continue
            for k, v in sorted(d["variants"].items()):
                if v != d["text"]:
                    x = {a: b for a, b in d.items() if a != "variants"}
                    x["text"] = v
                    x["src"] = cfg + ":" + k
                    out.append(x)
    return out


def check_c01(ctx):
    core.build_harness()
    recs = generated_corpus(ctx)
    resp = respelled(ctx, 250 if ctx.tier == "quick" else 1500)
    ctx.extra["respelled_documents"] = len(resp)
    recs += resp
    pout, obs = record_docs(ctx, recs)
    judge_docs(ctx, "C01", "Trace_Doc_C01.cfg", pout, obs)
    doc_evidence(ctx, obs, "C01 judges the well-formed ones: no error, and components, relations, sections, step text, "
                           "numbers, metadata and servings equal to the prediction; each well-formed random document "
                           "is also judged in every respelling the generator knows (comments, wraps and blanks between and "
                           "inside names, CRLF, blank lines, fences) against the same prediction.")
    ctx.extra["wellformed_documents"] = sum(1 for x in obs if x.get("pred", {}).get("wellformed"))
    from . import p_parser
    p_parser.conformance(ctx, "C01")


def _replay(ctx, case, prop, cfg):
    core.build_harness()
    c = case["case"]
    rec = dict(text=c["text"], conv=c.get("conv") or "bundled")
    if c.get("ext") is not None:
        rec["ext"] = c["ext"]
    if c.get("extbits") is not None:
        rec["extbits"] = c["extbits"]
    if c.get("pred"):
        rec["pred"] = c["pred"]
    if c.get("defect"):
        rec["defect"] = c["defect"]
    pin = os.path.join(ctx.work, "r_in.ndjson")
    pout = os.path.join(ctx.work, "r_obs.ndjson")
    core.write_ndjson(pin, [rec])
    core.run_harness(ctx, ["docs", "--in", pin, "--out", pout, "--snaps"])
    obs = core.read_ndjson(pout)
    judge_docs(ctx, prop, cfg, pout, obs)
    print("observed:", json.dumps(obs[0]["obs"])[:2000])
    return ctx.finish()


def replay_c01(ctx, case):
    if case["case"].get("kind") == "parser":
        from . import p_parser
        return p_parser.replay(ctx, case, "C01")
    return _replay(ctx, case, "C01", "Trace_Doc_C01.cfg")


# ------------------------------------------------------------------------------------------ C06
def plain_corpus(ctx, cfgs):
    """inputs that are not written by CookDoc (no prediction): short strings, repository recipes, random splices"""
    quick = ctx.tier == "quick"
    recs = lexer_corpus(ctx, ["MC_Lexer_quick.cfg", "MC_Lexer_reduced4.cfg"] if quick else ["MC_Lexer_full4.cfg", "MC_Lexer_reduced5.cfg"],
                        cap=None if quick else 100000)
    repo = repo_corpus()
    recs += repo + random_corpus(ctx, 4000 if quick else 40000, [r["text"] for r in repo]) + repetition_corpus()
    out = []
    for r in recs:
        for bits, conv in cfgs:
            x = dict(r)
            x.pop("ptoks", None)
            x["extbits"] = bits
            x["conv"] = conv
            out.append(x)
    return out


ALL_EXT = 3818


def check_c06(ctx):
    core.build_harness()
    recs = generated_corpus(ctx) + defect_corpus(ctx) + plain_corpus(ctx, [(ALL_EXT, "bundled"), (0, "empty")] + ([] if ctx.tier == "quick" else [(ALL_EXT, "empty"), (2 | 64 | 2048, "bundled")]))
    if ctx.tier != "quick" and len(recs) > 400000:
        # the recorder keeps every record with its model and collector snapshots, the judge and the driver read them all:
        # 1.2 M records cost 30 GB; the thorough tier replays a seeded sample of 400 000
        import random
        ctx.extra["records_before_sampling"] = len(recs)
        recs = random.Random(ctx.seed).sample(recs, 400000)
    pin = os.path.join(ctx.work, "docs_in.ndjson")
    pout = os.path.join(ctx.work, "docs_obs.ndjson")
    core.write_ndjson(pin, recs)
    core.run_harness(ctx, ["docs", "--in", pin, "--out", pout, "--snaps"])
    obs = core.read_ndjson(pout)
    judge_docs(ctx, "C06", "Trace_Doc_C06.cfg", pout, obs)
    doc_evidence(ctx, obs, "C06 also judges every input of the plain corpora (exhaustive short strings of MC_Lexer, repository "
                           "recipes, random splices, repetitions) under several extension sets and both converters, with or "
                           "without errors, and validates the per-event collector snapshots (hook H2) against the scalar "
                           "transition relation of CookAnalysis.")
    ctx.extra["with_output"] = sum(1 for x in obs if x["obs"].get("has_output"))
    ctx.extra["invalid_with_output"] = sum(1 for x in obs if x["obs"].get("has_output") and not x["obs"].get("valid"))


def replay_c06(ctx, case):
    return _replay(ctx, case, "C06", "Trace_Doc_C06.cfg")


# ------------------------------------------------------------------------------------------ C07
def defect_corpus(ctx):
    quick = ctx.tier == "quick"
    cap = 12000 if quick else 80000
    per = 500 if quick else 5000
    recs = gen_docs(ctx, "MC_Doc_defect.cfg", per_class=per) + gen_docs(ctx, "MC_Doc_defect_canon.cfg", per_class=per)
    nsim = 750 if quick else 6000
    recs += gen_docs(ctx, "MC_Doc_simdef_ext.cfg", simulate=nsim)
    recs += gen_docs(ctx, "MC_Doc_simdef_extempty.cfg", simulate=nsim // 3)
    recs += gen_docs(ctx, "MC_Doc_simdef_canon.cfg", simulate=nsim // 2)
    return recs


def check_c07(ctx):
    core.build_harness()
    recs = generated_corpus(ctx) + defect_corpus(ctx)
    pout, obs = record_docs(ctx, recs)
    judge_docs(ctx, "C07", "Trace_Doc_C07.cfg", pout, obs)
    doc_evidence(ctx, obs, "C07: well-formed documents must produce nothing but the deprecation notice; documents with one "
                           "cataloged invalid construct (23 parse-stage and 12 analysis-stage variants, injected at every "
                           "position of the defect kernel and at random positions of the walks) must produce the predicted "
                           "severity/stage/class with its first label touching the construct's byte span; validity, output "
                           "suppression and stage rules are judged on every record.")
    ctx.extra["documents_with_injected_defect"] = sum(1 for x in obs if "defect" in x)
    ctx.extra["defect_classes"] = sorted({x["defect"]["class"] for x in obs if "defect" in x})
    from . import p_parser
    p_parser.conformance(ctx, "C07")


def replay_c07(ctx, case):
    if case["case"].get("kind") == "parser":
        from . import p_parser
        return p_parser.replay(ctx, case, "C07")
    return _replay(ctx, case, "C07", "Trace_Doc_C07.cfg")


# ------------------------------------------------------------------------------------------ C02
EXT_BITS = {"MODIFIERS": 1 << 1, "ALIAS": 1 << 3, "ADVANCED_UNITS": 1 << 5, "MODES": 1 << 6, "INLINE": 1 << 7, "RANGE": 1 << 9,
            "TIMER_REQ": 1 << 10, "INTERMEDIATE": 1 << 11}
REINTERPRETED = {"MODIFIERS", "ALIAS", "ADVANCED_UNITS", "MODES", "INLINE", "RANGE", "TIMER_REQ", "INTERMEDIATE"}


def check_c02(ctx):
    core.build_harness()
    quick = ctx.tier == "quick"
    nsim = 600 if quick else 6000
    # (1) core-syntax documents: written with no extension syntax at all, kept when they use none of the
    # reinterpreted constructs (the generator records what each document uses)
    docs = gen_docs(ctx, "MC_Doc_sim_canonb.cfg", simulate=nsim)
    core_docs = []
    for d in docs:
        uses = set(d.get("uses", []))
        if not d["pred"]["wellformed"] or uses & REINTERPRETED:
            continue
        d = dict(d)
        d["lacking"] = 0
        # an empty converter rejects every timer unit under ADVANCED_UNITS (documented): timers only with bundled units
        core_docs.append(dict(d, conv="bundled"))
        if "TIMER" not in uses:
            core_docs.append(dict(d, conv="empty", pred=None))
    core_docs = core_docs[: (400 if quick else 8000)]
    for d in core_docs:
        if d.get("pred") is None:
            d.pop("pred")
    # (2) converse: documents that use exactly one extension's syntax, read by parsers that lack it
    conv_docs = []
    for name, ext in [("Alias", "ALIAS"), ("Range", "RANGE"), ("Advanced", "ADVANCED_UNITS"), ("Modes", "MODES"), ("Inline", "INLINE")]:
        ds = gen_docs(ctx, f"MC_Doc_conv_{name}.cfg", simulate=nsim // 2)
        keep = [dict(d, lacking=EXT_BITS[ext], conv="bundled") for d in ds
                if d["pred"]["wellformed"] and ext in d.get("uses", []) and not (set(d.get("uses", [])) - {ext, "TIMER"} & REINTERPRETED)]
        conv_docs += keep[: (40 if quick else 400)]
    # intermediate-reference syntax read by parsers that have modifiers but not intermediate preparations
    ds = gen_docs(ctx, "MC_Doc_conv_Intermediate.cfg", simulate=nsim // 2)
    keep = [dict(d, lacking=EXT_BITS["INTERMEDIATE"], requiring=EXT_BITS["MODIFIERS"], conv="bundled") for d in ds
            if "INTERMEDIATE" in d.get("uses", []) and not (set(d.get("uses", [])) - {"INTERMEDIATE", "MODIFIERS", "TIMER"} & REINTERPRETED)
            and not d["pred"]["failed"]]
    conv_docs += keep[: (40 if quick else 400)]
    # timers without a duration are core syntax that TIMER_REQ reinterprets
    for d in docs:
        uses = set(d.get("uses", []))
        if d["pred"]["wellformed"] and "TIMER_REQ" in uses and not (uses - {"TIMER_REQ", "TIMER"}) & REINTERPRETED:
            conv_docs.append(dict(d, lacking=EXT_BITS["TIMER_REQ"], conv="bundled"))
    # a range written with a blank-separated unit: without RANGE it is one text value whether ADVANCED_UNITS is on or not
    for t in ["@flour{2-3 kg}\n", "Add @milk{1-2 cups} slowly\n", "@salt{1/2-1 tsp}\n", "@x{2-3 large}\n", "@y{ 1 - 2 g } and @z{1-2}\n"]:
        conv_docs.append(dict(text=t, ext=[], conv="bundled", lacking=EXT_BITS["RANGE"], uses=["RANGE", "ADVANCED_UNITS"], src="range+unit"))
    # modifier characters right after the marker: without MODIFIERS (and INTERMEDIATE, which implies it) they start the name
    for t in ["@flour{1} and @&flour{100%g}\n", "#&pan{} and #?lid{}\n", "@?salt{} @+a{} @-b{}\n", "@@x{} ~&rest{5%min}\n", "@&(1)dough{} well\n"]:
        conv_docs.append(dict(text=t, ext=[], conv="bundled", lacking=EXT_BITS["MODIFIERS"] | EXT_BITS["INTERMEDIATE"], uses=["MODIFIERS"], src="modifier-chars"))
    # behind a front matter a `>>` line with a plain key is step text under every subset (only bracketed keys are entries, with MODES)
    for t in ["---\ntitle: x\n---\n>> note: serve hot\n@a{1}\n", "---\nservings: 2\n---\nMix @a{1}\n\n>> servings: 4\n\nand @b{2}\n",
              "---\nk: v\n---\n>> k: w\n\nstep\n", "---\n---\n>> source: book\nstep\n"]:
        conv_docs.append(dict(text=t, ext=[], conv="bundled", lacking=0, uses=[], src="frontmatter-then-entry"))
    # a number glued to letters is one text value under every subset; a timer without a duration wherever TIMER_REQ is off
    for t in ["@flour{2kg} @eggs{3x} @milk{1/2cup} #jug{1big}\n", "@a{2kg%bag} @b{3x%}\n"]:
        conv_docs.append(dict(text=t, ext=[], conv="bundled", lacking=0, uses=[], src="glued-number"))
    for t in ["~rest and ~boil eggs{} then @a{1}\n", "Wait ~a while{} #p{}\n"]:
        conv_docs.append(dict(text=t, ext=[], conv="bundled", lacking=EXT_BITS["TIMER_REQ"], uses=["TIMER_REQ"], src="bare-timers"))
    # `|` in a name, once, twice, at either end: without ALIAS it is an ordinary character of the name
    for t in ["@white wine|wine{}\n", "@white wine|wine|vino{}\n", "#pot|pan|wok{} and #lid|cover\n", "@a||b{1}\n", "@|a{} @b|{}\n", "~rest|wait{5%min} @x|y|z\n"]:
        conv_docs.append(dict(text=t, ext=[], conv="bundled", lacking=EXT_BITS["ALIAS"], uses=["ALIAS"], src="pipes"))
    # bracketed keys, known and unknown ones: without MODES they are plain metadata entries
    for t in [">> [mode]: steps\n@a{1}\n", ">> [define]: components\n@a{1}\n", ">> [duplicate]: reference\n@a{1} @a{2}\n", ">> [mode]: nonsense\n@a\n",
              ">> [other]: x\n@a\n", ">> [auto scale]: true\n@a{1}\n"]:
        conv_docs.append(dict(text=t, ext=[], conv="bundled", lacking=EXT_BITS["MODES"], uses=["MODES"], src="bracketed-keys"))
    pin = os.path.join(ctx.work, "sub_in.ndjson")
    pout = os.path.join(ctx.work, "sub_obs.ndjson")
    psum = os.path.join(ctx.work, "sub_sum.ndjson")
    core.write_ndjson(pin, core_docs + conv_docs)
    core.run_harness(ctx, ["subsets", "--in", pin, "--out", pout, "--summary", psum])
    obs = core.read_ndjson(pout)
    judge_docs(ctx, "C02", "Trace_Doc_C02.cfg", pout, obs)
    sums = core.read_ndjson(psum)
    n, bad, _ = core.run_judge(ctx, "Trace_Subsets", psum)
    for line, names in bad:
        x = sums[line - 1]
        distinct = sorted(set(x["imgs"]))
        first_other = next(i for i, h in enumerate(x["imgs"]) if h != x["imgs"][0]) if len(distinct) > 1 else 0
        for c in names:
            ctx.violation(c, f"C02 clause {c} fails on {text_of(x)[:160]!r}: {len(distinct)} distinct images over {len(x['imgs'])} "
                             f"subsets lacking bits {x['lacking']} (e.g. ext bits {x['exts'][0]} vs {x['exts'][first_other]})",
                          dict(kind="subsets", clause=c, text=text_of(x), conv=x["conv"], lacking=x["lacking"],
                               differing=[x["exts"][0], x["exts"][first_other]]))
    doc_evidence(ctx, obs, "C02: core-syntax documents (none of the reinterpreted constructs, as recorded by the generator) are "
                           "parsed under all 192 closed subsets of the eight flags: equal to the predicted recipe, error free, "
                           "and one serde_json image per document; documents using exactly one extension's syntax are parsed "
                           "under every subset lacking it and must equal the core reading CookDoc predicts with that extension off.")
    ctx.extra["core_documents"] = len(core_docs)
    ctx.extra["converse_documents"] = len(conv_docs)
    ctx.extra["parses"] = len(obs)


def replay_c02(ctx, case):
    core.build_harness()
    c = case["case"]
    if c.get("kind") == "subsets":
        pin = os.path.join(ctx.work, "sub_in.ndjson")
        pout = os.path.join(ctx.work, "sub_obs.ndjson")
        psum = os.path.join(ctx.work, "sub_sum.ndjson")
        core.write_ndjson(pin, [dict(text=c["text"], conv=c["conv"], lacking=c["lacking"])])
        core.run_harness(ctx, ["subsets", "--in", pin, "--out", pout, "--summary", psum])
        n, bad, _ = core.run_judge(ctx, "Trace_Subsets", psum)
        for line, names in bad:
            ctx.violation("replay", f"still fails: {names}", dict())
        return ctx.finish()
    return _replay(ctx, case, "C02", "Trace_Doc_C02.cfg")


# ------------------------------------------------------------------------------------------ C17
def check_c17(ctx):
    core.build_harness()
    quick = ctx.tier == "quick"
    nsim = 500 if quick else 8000
    docs = []
    for cfg, n in [("MC_Doc_var_sim_ext.cfg", nsim), ("MC_Doc_var_sim_canon.cfg", nsim // 2), ("MC_Doc_var_sim_extempty.cfg", nsim // 4)]:
        docs += [d for d in gen_docs(ctx, cfg, simulate=n) if "variants" in d]
    if not quick:
        docs += [d for d in gen_docs(ctx, "MC_Doc_var_struct.cfg", max_n=40000) if "variants" in d]
    # CRLF replacement for every plain input without a backslash or a lone carriage return
    plain = []
    for r in plain_corpus(ctx, [(ALL_EXT, "bundled"), (0, "empty")]):
        t = text_of(r)
        if "\\" in t or "\r" in t or "\n" not in t:
            continue
        plain.append(dict(text=t, extbits=r["extbits"], conv=r["conv"], variants=dict(crlf=t.replace("\n", "\r\n")), src=r.get("src", "")))
    pin = os.path.join(ctx.work, "var_in.ndjson")
    pout = os.path.join(ctx.work, "var_obs.ndjson")
    core.write_ndjson(pin, docs + plain)
    core.run_harness(ctx, ["variants", "--in", pin, "--out", pout])
    obs = core.read_ndjson(pout)
    n, bad, _ = core.run_judge(ctx, "Trace_Variants", pout)
    bad.sort(key=lambda b: len(obs[b[0] - 1]["text"]))
    for line, kinds in bad:
        x = obs[line - 1]
        for k in kinds:
            v = next(v for v in x["vars"] if v["kind"] == k)
            ctx.violation(k, f"C17: variant '{k}' of {x['text'][:140]!r} parses differently (ext bits {x['extbits']}, {x['conv']})",
                          dict(kind="variant", variant=k, text=x["text"], variant_text=v["text"], extbits=x["extbits"], conv=x["conv"],
                               base=x["base"], obs=v["obs"]))
    ctx.evaluations = sum(1 + len(x["vars"]) for x in obs)
    ctx.nontrivial = sum(1 for x in obs for v in x["vars"] if not v["same_text"])
    ctx.rule = ("documents written by CookDoc (random walks under the extended/canonical parser and both converters, structure "
                "kernel) each printed by TLC in 11 variants built from the generator's own marks: CRLF; a trailing comment / "
                "blanks / tab on every or every other Cooklang line; a block comment at every or every other item separator; "
                "extra blank, blank-padded, comment-only or block-comment lines at every or every other block start; plus "
                "CRLF replacement of every plain corpus input without a backslash or lone CR. "
                "non-trivial = variant texts that differ from their base text")
    ctx.extra["documents"] = len(docs)
    ctx.extra["wellformed_documents"] = sum(1 for x in obs if x["wellformed"])
    ctx.extra["plain_inputs_crlf"] = len(plain)
    for x in obs[:3]:
        ctx.sample(dict(base=x["text"][:200], variants={v["kind"]: v["text"][:120] for v in x["vars"][:3]}))
    ctx.assumptions = ["TLC and the CommunityModules JSON reader are trusted", "step text is whitespace-normalised by the projection before comparison"]


def replay_c17(ctx, case):
    core.build_harness()
    c = case["case"]
    pin = os.path.join(ctx.work, "var_in.ndjson")
    pout = os.path.join(ctx.work, "var_obs.ndjson")
    core.write_ndjson(pin, [dict(text=c["text"], extbits=c["extbits"], conv=c["conv"], variants={c["variant"]: c["variant_text"]},
                                 pred=dict(wellformed=True))])
    core.run_harness(ctx, ["variants", "--in", pin, "--out", pout])
    n, bad, _ = core.run_judge(ctx, "Trace_Variants", pout)
    for line, kinds in bad:
        ctx.violation("replay", f"still differs: {kinds}", dict())
    return ctx.finish()
